package main

import (
	"fmt"
	"go/token"
	"go/types"

	"golang.org/x/tools/go/ssa"
)

func init() {
	register(&propDef{
		ID:        "C19",
		Run:       checkC19,
		Technique: "static analysis: lockset, ownership/overwrite rule on the two owning socket fields, edge-guard reachability with critical-section identity, value provenance of the write destination, narrowing-conversion discharge (go/ssa)",
		Explanation: "Decides the socket discipline and destination provenance of the hopping client for all paths and interleavings that respect the mutex: " +
			"R1 prevConn/currentConn/addrIndex/closed/Addrs, the buffer sizes and the three deadlines are read only with connMutex held and written only under the write lock (lock-context helpers are discovered from their callers); " +
			"R2 every ListenUDPFunc result is, on every path after the success edge, installed in currentConn or closed; currentConn only ever receives such a result, after the old value was moved to prevConn; prevConn only receives the outgoing currentConn, after its old value was closed (or found nil), and only on the listen-success edge - hence at most two owned sockets and nothing is forgotten on a failed listen; " +
			"R3 Close closes both sockets and closeChan and sets closed on every path past its `closed` test, the test and the set share one write-locked section together with the loads of the sockets it closes; closed is never reset; a socket is installed only behind a `closed == false` test in the same critical section; the inner WriteTo is behind the same test and the closed edge returns a non-nil error; every receive from recvQueue is a select that also listens on closeChan and that arm returns a non-nil error; " +
			"R4 the inner WriteTo is invoked on the loaded currentConn with destination Addrs[addrIndex] of the same object; addrIndex is only stored as rand.Intn(len(Addrs)); Addrs is frozen after construction; each element is UDPAddr{IP: a.IP, Port: int(a.Ports[i])}; Ports is only stored as ParsePortUnion(s).Ports(); " +
			"R5 every narrowing conversion to uint16 in the port parser takes strconv.ParseUint(_, _, <=16) or a value bounded by a guard against a widened uint16, and `<=`-bounded induction variables are wider than their bound; " +
			"R6 a receive loop is started on every installed socket, it returns only on the ReadFrom-error edge, and an owned socket is closed only in the final Close or (prevConn only) on the listen-success edge of a hop - so the loop on the previous socket keeps feeding the queue until the next hop; " +
			"R7 (necessary conditions of the set semantics, not the semantics) every PortRange the parser builds has Start <= End established where it is built (same value, ordered constants, min/max of one pair, the two phis of a swap guarded by a comparison of that pair) or the entries are ordered in place before the sort call, and no path through an iteration of the token loop leaves the accumulated union unchanged under a condition computed from that union.",
		NotDecided: []string{
			"that a port expression denotes exactly the union of its ports and ranges (set semantics of sort/merge: R7 decides only that ordered ranges reach the sort and that no token is skipped on the strength of the accumulated prefix)",
			"jitter distribution and interval normalisation",
			"the interleaving claim as a whole (R1-R3 are its lock/ownership core); that hopLoop terminates on closeChan (goroutine hygiene, no socket effect because hop re-tests closed)",
			"that every element of Ports yields exactly one address (loop trip count)",
			"that Close() of a net.PacketConn releases the OS socket and fails its pending ReadFrom (library)",
		},
		Assumptions: []string{
			"ListenUDPFunc returns a nil socket together with a non-nil error",
			"fields of the object under construction are written before it is shared with the goroutines the constructor starts",
			"lock-context helpers do not release and re-acquire connMutex (checked syntactically: no Unlock call in a function a guard is lifted through)",
		},
	})
}

type c19ctx struct {
	c  *Check
	p  *Prog
	la *LockAnalysis

	fMu, fPrev, fCur, fIdx, fClosed, fCloseChan, fRecvQ, fAddrs, fListen *types.Var
	pkgFns                                                               []*ssa.Function
	openers                                                              map[*ssa.Call]bool
	recvFns                                                              map[*ssa.Function]bool
}

// ---------------------------------------------------------------------------
// small helpers (all prefixed c19)

// c19fresh: the address belongs to an object allocated in fn itself (under
// construction, not yet shared).
func c19fresh(addr ssa.Value, fn *ssa.Function) bool {
	al, ok := accessPath(addr).Root.(*ssa.Alloc)
	return ok && al.Parent() == fn
}

func c19exported(fn *ssa.Function) bool {
	return fn.Object() != nil && fn.Object().Exported()
}

// c19unlocks: fn contains a (non deferred) release of the mutex.
func (x *c19ctx) c19unlocks(fn *ssa.Function) bool {
	found := false
	allInstrs(fn, func(in ssa.Instruction) {
		if call, ok := in.(*ssa.Call); ok {
			if f, op := lockOp(call); f == x.fMu && (op == "Unlock" || op == "RUnlock") {
				found = true
			}
		}
	})
	return found
}

// c19liftable: a guard missing inside fn may be looked for at its call sites.
func (x *c19ctx) c19liftable(fn *ssa.Function) bool {
	return len(x.la.callers[fn]) > 0 && !x.la.escaped[fn] && !c19exported(fn) && !x.c19unlocks(fn)
}

// c19guardedUp: every entry→target path crosses an edge accepted by mk(target),
// in target's function or, for unexported helpers that are only called
// directly, at every call site (transitively, depth-limited).
func (x *c19ctx) c19guardedUp(target ssa.Instruction, mk func(t ssa.Instruction) EdgePred, depth int) bool {
	if guardedBy(target, mk(target)) {
		return true
	}
	fn := target.Parent()
	if depth >= 3 || !x.c19liftable(fn) {
		return false
	}
	for _, cs := range x.la.callers[fn] {
		if !x.c19guardedUp(cs, mk, depth+1) {
			return false
		}
	}
	return true
}

func (x *c19ctx) c19sameRegionEither(a, b ssa.Instruction, mode lockMode) bool {
	if a.Parent() != b.Parent() {
		return false
	}
	return x.la.sameRegion(a, b, x.fMu, mode) || x.la.sameRegion(b, a, x.fMu, mode)
}

// c19closedFalse: the edge `closed == false` whose load of `closed` lies in the
// same critical section as target.
func (x *c19ctx) c19closedFalse(target ssa.Instruction) EdgePred {
	return func(cond ssa.Value, pol bool) bool {
		if pol || !isLoadOfField(cond, x.fClosed) {
			return false
		}
		l, ok := resolve(cond).(ssa.Instruction)
		if !ok || l.Parent() != target.Parent() {
			return false
		}
		return x.la.sameRegion(l, target, x.fMu, lockR)
	}
}

// c19listenOK: the `err == nil` edge of a ListenUDPFunc call.
func (x *c19ctx) c19listenOK(cond ssa.Value, pol bool) bool {
	v, isNil, ok := nilTest(cond, pol)
	if !ok || !isNil {
		return false
	}
	tup, idx := tupleSource(v)
	call, isCall := tup.(*ssa.Call)
	return isCall && idx == 1 && x.openers[call]
}

// c19leaks: Return instructions reachable after `from` (nil = entry) without
// passing an instruction accepted by ev and without crossing edgeStop.
func c19leaks(fn *ssa.Function, from ssa.Instruction, ev func(ssa.Instruction) bool, edgeStop EdgePred) []ssa.Instruction {
	var out []ssa.Instruction
	for _, in := range reachFrom(fn, from, ev, edgeStop) {
		if r, ok := in.(*ssa.Return); ok && !ev(r) {
			out = append(out, r)
		}
	}
	return out
}

func c19hasReturn(fn *ssa.Function) bool {
	found := false
	allInstrs(fn, func(in ssa.Instruction) {
		if _, ok := in.(*ssa.Return); ok && in.Block() != fn.Recover {
			found = true
		}
	})
	return found
}

// c19viaHelper lifts a value-relative event through a direct call: `in` is a
// call of a helper with a body that receives the value as argument i and
// performs the event on Params[i] on every path to its returns.
func (x *c19ctx) c19viaHelper(in ssa.Instruction, isVal func(ssa.Value) bool, mkEv func(isVal func(ssa.Value) bool, depth int) func(ssa.Instruction) bool, depth int) bool {
	call, ok := in.(*ssa.Call)
	if !ok || depth >= 2 {
		return false
	}
	callee := staticCallee(call)
	if callee == nil || len(callee.Blocks) == 0 || !x.p.IsRepoFn(callee) || !c19hasReturn(callee) {
		return false
	}
	for i, a := range call.Call.Args {
		if i >= len(callee.Params) || !isVal(a) {
			continue
		}
		prm := ssa.Value(callee.Params[i])
		sub := mkEv(func(v ssa.Value) bool { return resolve(v) == prm }, depth+1)
		if len(c19leaks(callee, nil, sub, nil)) == 0 {
			return true
		}
	}
	return false
}

// c19evOwned: the value is installed in currentConn or closed.
func (x *c19ctx) c19evOwned(isVal func(ssa.Value) bool, depth int) func(ssa.Instruction) bool {
	return func(in ssa.Instruction) bool {
		if st, ok := in.(*ssa.Store); ok {
			if fa, ok := st.Addr.(*ssa.FieldAddr); ok && structField(fa.X.Type(), fa.Field) == x.fCur && isVal(st.Val) {
				return true
			}
		}
		if isCloseOf(in, isVal) {
			return true
		}
		return x.c19viaHelper(in, isVal, x.c19evOwned, depth)
	}
}

// c19recvParam: callee reads packets from its parameter i.
func c19recvParam(callee *ssa.Function, i int) bool {
	if callee == nil || i >= len(callee.Params) {
		return false
	}
	refs := callee.Params[i].Referrers()
	if refs == nil {
		return false
	}
	for _, r := range *refs {
		if call, ok := r.(*ssa.Call); ok && invokeIs(call, "ReadFrom") && call.Call.Value == ssa.Value(callee.Params[i]) {
			return true
		}
	}
	return false
}

// c19evRecv: a receive loop goroutine is started on the value (or the value
// is discarded by closing it).
func (x *c19ctx) c19evRecv(isVal func(ssa.Value) bool, depth int) func(ssa.Instruction) bool {
	return func(in ssa.Instruction) bool {
		if isCloseOf(in, isVal) {
			return true
		}
		if g, ok := in.(*ssa.Go); ok {
			callee := staticCallee(g)
			for i, a := range g.Call.Args {
				if isVal(a) && c19recvParam(callee, i) {
					x.recvFns[callee] = true
					return true
				}
			}
			return false
		}
		return x.c19viaHelper(in, isVal, x.c19evRecv, depth)
	}
}

// c19fromListen: v is result #0 of a ListenUDPFunc call of the same function
// and `at` lies behind that call's success edge; parameters of unexported
// helpers are followed to every call site.
func (x *c19ctx) c19fromListen(v ssa.Value, at ssa.Instruction, depth int) bool {
	v = resolve(v)
	if e, ok := v.(*ssa.Extract); ok && e.Index == 0 {
		call, isCall := e.Tuple.(*ssa.Call)
		if !isCall || !x.openers[call] || call.Parent() != at.Parent() {
			return false
		}
		errv := extractOf(call, 1)
		return guardedBy(at, func(cond ssa.Value, pol bool) bool {
			y, isNil, ok := nilTest(cond, pol)
			return ok && isNil && errv != nil && resolve(y) == errv
		})
	}
	prm, ok := v.(*ssa.Parameter)
	if !ok || depth >= 3 {
		return false
	}
	fn := prm.Parent()
	if fn != at.Parent() || !x.c19liftable(fn) {
		return false
	}
	k := -1
	for i, q := range fn.Params {
		if q == prm {
			k = i
		}
	}
	if k < 0 {
		return false
	}
	for _, cs := range x.la.callers[fn] {
		args := cs.Common().Args
		if k >= len(args) || !x.c19fromListen(args[k], cs, depth+1) {
			return false
		}
	}
	return true
}

// c19overwriteOK: overwrite rule for an owning field.  On every entry→store
// path the old value was found nil, closed, or moved into a moveTo field
// (directly or by a helper that does so on all its paths); alternatively the
// old value was snapshotted before the store and the snapshot is closed (or
// found nil) on every path from the store to the exits.
func (x *c19ctx) c19overwriteOK(st *ssa.Store, field *types.Var, moveTo []*types.Var) (bool, string) {
	fn := st.Parent()
	isOld := func(v ssa.Value) bool { return isLoadOfField(v, field) }
	nilEdge := func(cond ssa.Value, pol bool) bool {
		v, isNil, ok := nilTest(cond, pol)
		return ok && isNil && isOld(v)
	}
	direct := func(in ssa.Instruction) bool {
		if isCloseOf(in, isOld) {
			return true
		}
		if s2, ok := in.(*ssa.Store); ok && s2 != st {
			if fa2, ok := s2.Addr.(*ssa.FieldAddr); ok {
				f2 := structField(fa2.X.Type(), fa2.Field)
				for _, m := range moveTo {
					if f2 == m && isOld(s2.Val) {
						return true
					}
				}
			}
		}
		return false
	}
	stop := func(in ssa.Instruction) bool {
		if direct(in) {
			return true
		}
		if call, ok := in.(*ssa.Call); ok {
			callee := staticCallee(call)
			if callee != nil && len(callee.Blocks) > 0 && x.p.IsRepoFn(callee) && c19hasReturn(callee) {
				return len(c19leaks(callee, nil, direct, nilEdge)) == 0
			}
		}
		return false
	}
	reached := false
	for _, in := range reachFrom(fn, nil, stop, nilEdge) {
		if in == ssa.Instruction(st) {
			reached = true
		}
	}
	if !reached {
		return true, ""
	}
	// snapshot variant
	var snaps []*ssa.UnOp
	allInstrs(fn, func(in ssa.Instruction) {
		if u, ok := in.(*ssa.UnOp); ok && u.Op == token.MUL && isOld(u) && dominates(u, st) {
			snaps = append(snaps, u)
		}
	})
	for _, l := range snaps {
		// no other store to the field between the snapshot and st
		clean := true
		for _, in := range reachFrom(fn, l, func(in ssa.Instruction) bool { return in == ssa.Instruction(st) }, nil) {
			if s2, ok := in.(*ssa.Store); ok && s2 != st {
				if fa2, ok := s2.Addr.(*ssa.FieldAddr); ok && structField(fa2.X.Type(), fa2.Field) == field {
					clean = false
				}
			}
		}
		if !clean {
			continue
		}
		isSnap := func(v ssa.Value) bool { return resolve(v) == ssa.Value(l) }
		snapNil := func(cond ssa.Value, pol bool) bool {
			v, isNil, ok := nilTest(cond, pol)
			return ok && isNil && isSnap(v)
		}
		ev := func(in ssa.Instruction) bool { return isCloseOf(in, isSnap) }
		if len(c19leaks(fn, st, ev, snapNil)) == 0 {
			return true, ""
		}
	}
	return false, "a path reaches the store with the previous value neither nil, closed nor moved"
}

// c19nonNilErr: v is syntactically a non-nil error (package-level error
// variable, errors.New/fmt.Errorf result, concrete value boxed in an interface).
func c19nonNilErr(v ssa.Value) bool {
	if mi, ok := v.(*ssa.MakeInterface); ok {
		return !isNilConst(mi.X)
	}
	switch y := resolve(v).(type) {
	case *ssa.UnOp:
		_, isGlobal := y.X.(*ssa.Global)
		return y.Op == token.MUL && isGlobal
	case *ssa.Call:
		return calleeIs(y, "errors", "New") || calleeIs(y, "fmt", "Errorf")
	}
	return false
}

func c19selectRecvIndex(sel *ssa.Select, field *types.Var) int {
	for i, s := range sel.States {
		if s.Dir == types.RecvOnly && isLoadOfField(s.Chan, field) {
			return i
		}
	}
	return -1
}

func c19isInt(t types.Type) (*types.Basic, bool) {
	b, ok := t.Underlying().(*types.Basic)
	if !ok || b.Info()&types.IsInteger == 0 {
		return nil, false
	}
	return b, true
}

func c19intBits(b *types.Basic) int {
	switch b.Kind() {
	case types.Int8, types.Uint8:
		return 8
	case types.Int16, types.Uint16:
		return 16
	case types.Int32, types.Uint32:
		return 32
	}
	return 64
}

func c19unsigned(b *types.Basic) bool { return b.Info()&types.IsUnsigned != 0 }

// c19widened: v is a conversion from an unsigned integer type of at most
// `bits` bits (its value therefore fits that type).
func c19widened(v ssa.Value, bits int) bool {
	cv, ok := v.(*ssa.Convert)
	if !ok {
		return false
	}
	b, ok := c19isInt(cv.X.Type())
	return ok && c19unsigned(b) && c19intBits(b) <= bits
}

// ---------------------------------------------------------------------------

func checkC19(c *Check) {
	lockBalanceRule(c, "C19", pUDPHop)
	p := c.P
	x := &c19ctx{c: c, p: p, la: p.Locks(), openers: map[*ssa.Call]bool{}, recvFns: map[*ssa.Function]bool{}}
	const tn = "udpHopPacketConn"
	T := p.Named(pUDPHop, tn)
	if T == nil {
		c.Unres("type udphop." + tn)
		return
	}
	fld := func(name string) *types.Var {
		f := p.Field(pUDPHop, tn, name)
		if f == nil {
			c.Unres("field udphop." + tn + "." + name)
		}
		return f
	}
	x.fMu, x.fPrev, x.fCur, x.fIdx = fld("connMutex"), fld("prevConn"), fld("currentConn"), fld("addrIndex")
	x.fClosed, x.fCloseChan, x.fRecvQ, x.fAddrs, x.fListen = fld("closed"), fld("closeChan"), fld("recvQueue"), fld("Addrs"), fld("ListenUDPFunc")
	settings := []*types.Var{fld("readBufferSize"), fld("writeBufferSize"), fld("deadline"), fld("readDeadline"), fld("writeDeadline")}
	if len(c.Unresolved) > 0 {
		return
	}
	ptrT := types.NewPointer(T)
	closeFn, writeFn, readFn := p.MethodOf(ptrT, "Close"), p.MethodOf(ptrT, "WriteTo"), p.MethodOf(ptrT, "ReadFrom")
	if closeFn == nil || writeFn == nil || readFn == nil {
		c.Unres("methods Close/WriteTo/ReadFrom of *udphop." + tn)
		return
	}
	for _, fn := range p.RepoFns {
		if pk := fnPkg(fn); pk != nil && pk.Pkg.Path() == pUDPHop {
			x.pkgFns = append(x.pkgFns, fn)
		}
	}
	// ListenUDPFunc call sites: dynamic calls of a value of the field's type
	for _, fn := range x.pkgFns {
		allInstrs(fn, func(in ssa.Instruction) {
			call, ok := in.(*ssa.Call)
			if !ok || call.Call.IsInvoke() || staticCallee(call) != nil {
				return
			}
			if _, isBuiltin := call.Call.Value.(*ssa.Builtin); isBuiltin {
				return
			}
			if types.Identical(call.Call.Value.Type().Underlying(), x.fListen.Type().Underlying()) {
				x.openers[call] = true
			}
		})
	}

	x.c19R1(settings)
	stClosed := x.c19R2R6(closeFn)
	x.c19R3(closeFn, writeFn, readFn, stClosed)
	parseFn, portsFn := x.c19R4(stClosed)
	x.c19R5(parseFn, portsFn)
	x.c19R7(parseFn)
}

// ---- R1 lock discipline
func (x *c19ctx) c19R1(settings []*types.Var) {
	c, p := x.c, x.p
	const r1 = "C19.R1 prevConn, currentConn, addrIndex, closed, Addrs, the buffer sizes and the deadlines are loaded only with connMutex held and stored only under the write lock (objects under construction excepted)"
	guarded := append([]*types.Var{x.fPrev, x.fCur, x.fIdx, x.fClosed, x.fAddrs}, settings...)
	n := 0
	for _, f := range guarded {
		for _, fr := range fieldRefs(p.RepoFns, f) {
			if c19fresh(fr.Addr, fr.Fn) {
				continue
			}
			c.Saw(fnName(fr.Fn))
			key := "C19.R1:lock:" + f.Name() + ":" + fr.Kind + ":" + fnName(fr.Fn)
			switch fr.Kind {
			case "addr":
				c.Undecided(key, r1, p.InstrPos(fr.Instr), "the address of a guarded field is taken; accesses through the alias cannot be attributed to a critical section")
			case "load":
				n++
				c.Req(x.la.Holds(fr.Instr, x.fMu, lockR), key, r1, p.InstrPos(fr.Instr), "field "+f.Name()+" is read without holding connMutex (races with hop/Close)")
			case "store":
				n++
				c.Req(x.la.Holds(fr.Instr, x.fMu, lockW), key, r1, p.InstrPos(fr.Instr), "field "+f.Name()+" is written without holding connMutex for writing")
			}
		}
	}
	c.Floor("C19.R1:accesses", n, 12)
}

// ---- R2 ownership of the sockets, R6 receive loops / who may close
func (x *c19ctx) c19R2R6(closeFn *ssa.Function) (stClosed *ssa.Store) {
	c, p := x.c, x.p
	const r2 = "C19.R2 a ListenUDPFunc result is installed in currentConn or closed on every path past the success edge; currentConn only receives such a result after its old value moved to prevConn; prevConn only receives the outgoing currentConn, on the listen-success edge, after its old value was closed or found nil"
	const r6 = "C19.R6 a receive loop is started on every installed socket and returns only on the ReadFrom-error edge; an owned socket is closed only by the final Close or (prevConn) on the listen-success edge of a hop"

	// the store `closed = true` of Close (needed to recognise the final close)
	// - in Close itself or in a same-package helper Close calls directly
	findSt := func(fn *ssa.Function) {
		allInstrs(fn, func(in ssa.Instruction) {
			if st, ok := in.(*ssa.Store); ok && stClosed == nil {
				if fa, ok := st.Addr.(*ssa.FieldAddr); ok && structField(fa.X.Type(), fa.Field) == x.fClosed && isConstBool(st.Val, true) {
					stClosed = st
				}
			}
		})
	}
	findSt(closeFn)
	if stClosed == nil {
		allInstrs(closeFn, func(in ssa.Instruction) {
			if call, ok := in.(*ssa.Call); ok {
				if callee := staticCallee(call); callee != nil && fnPkg(callee) == fnPkg(closeFn) && len(callee.Blocks) > 0 {
					findSt(callee)
				}
			}
		})
	}

	nOpen := 0
	for _, fn := range x.pkgFns {
		allInstrs(fn, func(in ssa.Instruction) {
			call, ok := in.(*ssa.Call)
			if !ok || !x.openers[call] {
				return
			}
			nOpen++
			c.Saw(fnName(fn))
			res := extractOf(call, 0)
			isRes := func(v ssa.Value) bool { return res != nil && resolve(v) == res }
			errv := extractOf(call, 1)
			fail := func(cond ssa.Value, pol bool) bool {
				y, isNil, ok := nilTest(cond, pol)
				return ok && !isNil && errv != nil && resolve(y) == errv
			}
			leaks := c19leaks(fn, call, x.c19evOwned(isRes, 0), fail)
			detail := ""
			for _, l := range leaks {
				detail += " return at " + p.InstrPos(l)
			}
			c.Req(res != nil && len(leaks) == 0, "C19.R2:listen-result-owned:"+fnName(fn), r2, p.InstrPos(call), "the socket returned by ListenUDPFunc is neither installed in currentConn nor closed on:"+detail)
			noRecv := c19leaks(fn, call, x.c19evRecv(isRes, 0), fail)
			detail = ""
			for _, l := range noRecv {
				detail += " return at " + p.InstrPos(l)
			}
			c.Req(res != nil && len(noRecv) == 0, "C19.R6:recv-started:"+fnName(fn), r6, p.InstrPos(call), "no receive loop is started on the new socket (packets arriving on it are never delivered) on:"+detail)
		})
	}
	c.Floor("C19.R2:listen-sites", nOpen, 2)

	// stores to the owning fields
	nCur, nPrev := 0, 0
	for _, fr := range fieldRefs(p.RepoFns, x.fCur) {
		switch fr.Kind {
		case "addr":
			c.Undecided("C19.R2:alias:currentConn:"+fnName(fr.Fn), r2, p.InstrPos(fr.Instr), "address of the owning field taken")
		case "store":
			nCur++
			key := "C19.R2:store:currentConn:" + fnName(fr.Fn)
			st := fr.Instr.(*ssa.Store)
			c.Req(x.c19fromListen(fr.Val, st, 0), key+":origin", r2, p.InstrPos(st), "currentConn receives something other than the ListenUDPFunc result behind that call's success edge")
			if !c19fresh(fr.Addr, fr.Fn) {
				ok, why := x.c19overwriteOK(st, x.fCur, []*types.Var{x.fPrev})
				c.Req(ok, key+":old-moved", r2, p.InstrPos(st), why+" (the outgoing socket is forgotten while still open)")
			}
		}
	}
	for _, fr := range fieldRefs(p.RepoFns, x.fPrev) {
		switch fr.Kind {
		case "addr":
			c.Undecided("C19.R2:alias:prevConn:"+fnName(fr.Fn), r2, p.InstrPos(fr.Instr), "address of the owning field taken")
		case "store":
			nPrev++
			key := "C19.R2:store:prevConn:" + fnName(fr.Fn)
			st := fr.Instr.(*ssa.Store)
			if c19fresh(fr.Addr, fr.Fn) {
				c.Req(isNilConst(fr.Val), key+":value", r2, p.InstrPos(st), "a new object starts with a previous socket")
				continue
			}
			root := accessPath(fr.Addr).Root
			okVal := isNilConst(fr.Val) || (isLoadOfField(fr.Val, x.fCur) && accessPath(fr.Val).Root == root)
			c.Req(okVal, key+":value", r2, p.InstrPos(st), "prevConn receives something other than the outgoing currentConn of the same object")
			ok, why := x.c19overwriteOK(st, x.fPrev, nil)
			c.Req(ok, key+":old-closed", r2, p.InstrPos(st), why+" (the socket of two hops ago stays open: more than two sockets)")
			c.Req(x.c19guardedUp(st, func(ssa.Instruction) EdgePred { return x.c19listenOK }, 0), key+":after-listen-ok", r2, p.InstrPos(st), "the sockets are rotated on a path that has not passed the success edge of ListenUDPFunc (a failed listen forgets the previous socket)")
		}
	}
	c.Floor("C19.R2:store:currentConn", nCur, 2)
	c.Floor("C19.R2:store:prevConn", nPrev, 2)

	// who closes owned sockets
	nClose := 0
	for _, fn := range x.pkgFns {
		allInstrs(fn, func(in ssa.Instruction) {
			var f *types.Var
			var recv ssa.Value
			for _, cand := range []*types.Var{x.fPrev, x.fCur} {
				cand := cand
				if isCloseOf(in, func(v ssa.Value) bool {
					if isLoadOfField(v, cand) {
						recv = v
						return true
					}
					return false
				}) {
					f = cand
				}
			}
			if f == nil {
				return
			}
			nClose++
			key := "C19.R6:close-site:" + f.Name() + ":" + fnName(fn)
			load, _ := resolve(recv).(ssa.Instruction)
			final := stClosed != nil && load != nil && x.c19sameRegionEither(load, stClosed, lockW)
			if final {
				c.OK(key, r6, p.InstrPos(in))
				return
			}
			if f == x.fPrev && x.c19guardedUp(in, func(ssa.Instruction) EdgePred { return x.c19listenOK }, 0) {
				c.OK(key, r6, p.InstrPos(in))
				return
			}
			why := "currentConn is closed outside the final Close (its receive loop dies while packets are still expected on it)"
			if f == x.fPrev {
				why = "prevConn is closed outside the final Close and not behind the success edge of ListenUDPFunc (packets on the previous socket are lost before the next successful hop); in Close the socket must be loaded in the critical section that sets closed"
			}
			c.Bad(key, r6, p.InstrPos(in), why)
		})
	}
	c.Floor("C19.R6:close-sites", nClose, 3)

	// receive loops return only when ReadFrom failed
	nRecv := 0
	for _, fn := range x.pkgFns {
		if !x.recvFns[fn] {
			continue
		}
		c.Saw(fnName(fn))
		var errs []ssa.Value
		for i := range fn.Params {
			if !c19recvParam(fn, i) {
				continue
			}
			for _, r := range *fn.Params[i].Referrers() {
				if call, ok := r.(*ssa.Call); ok && invokeIs(call, "ReadFrom") {
					if tup, ok := call.Type().(*types.Tuple); ok {
						if e := extractOf(call, tup.Len()-1); e != nil {
							errs = append(errs, e)
						}
					}
				}
			}
		}
		readFailed := func(cond ssa.Value, pol bool) bool {
			y, isNil, ok := nilTest(cond, pol)
			if !ok || isNil {
				return false
			}
			for _, e := range errs {
				if resolve(y) == e {
					return true
				}
			}
			return false
		}
		good := true
		pos := p.Pos(fn.Pos())
		allInstrs(fn, func(in ssa.Instruction) {
			if r, ok := in.(*ssa.Return); ok && r.Block() != fn.Recover && !guardedBy(r, readFailed) {
				good = false
				pos = p.InstrPos(r)
			}
		})
		nRecv++
		c.Req(good, "C19.R6:recv-loop-exit:"+fnName(fn), r6, pos, "the receive loop can return although ReadFrom on its socket succeeded (the socket stays open but deaf)")
		// a read deadline that expires is not the end of the socket: behind the `Timeout() == true`
		// edge the loop must come back to ReadFrom, never return (the socket is still open and
		// installed -- as current or as previous -- and packets arriving later would be lost)
		isRead := func(in ssa.Instruction) bool {
			call, ok := in.(*ssa.Call)
			return ok && invokeIs(call, "ReadFrom")
		}
		tmoGood, tmoPos, nTmo := true, "", 0
		for _, b := range fn.Blocks {
			for i, s := range b.Succs {
				cnd, pol, ok := edgeFact(b, i)
				if !ok || !pol {
					continue
				}
				call, ok := resolve(cnd).(*ssa.Call)
				if !ok || !invokeIs(call, "Timeout") {
					continue
				}
				nTmo++
				if len(s.Instrs) == 0 {
					continue
				}
				for _, in := range reachFrom(fn, s.Instrs[0], isRead, nil) {
					if r, isRet := in.(*ssa.Return); isRet && r.Block() != fn.Recover {
						tmoGood, tmoPos = false, p.InstrPos(r)
					}
				}
				if r, isRet := s.Instrs[0].(*ssa.Return); isRet {
					tmoGood, tmoPos = false, p.InstrPos(r)
				}
			}
		}
		if nTmo > 0 {
			c.Req(tmoGood, "C19.R6:recv-loop-survives-timeout:"+fnName(fn), r6, tmoPos, "the receive loop returns on a read-deadline expiry: the socket stays open (and installed) but nobody reads it any more, so packets that arrive on it -- e.g. on the previous socket before the next hop -- are lost")
		}
	}
	c.Floor("C19.R6:recv-loops", nRecv, 1)
	return stClosed
}

// ---- R3 Close is final
func (x *c19ctx) c19R3(closeFn, writeFn, readFn *ssa.Function, stClosed *ssa.Store) {
	c, p := x.c, x.p
	const r3 = "C19.R3 Close closes prevConn (when non-nil), currentConn and closeChan and sets closed on every path past its closed test, test and set sharing one write-locked section; closed is never reset; sockets are installed and written to only behind `closed == false` in the same critical section; the closed edge of WriteTo and the closeChan arm of ReadFrom return a non-nil error"
	c.Saw(fnName(closeFn))
	c.Saw(fnName(writeFn))
	c.Saw(fnName(readFn))
	closedTrue := func(cond ssa.Value, pol bool) bool { return pol && isLoadOfField(cond, x.fClosed) }
	if stClosed == nil {
		c.Bad("C19.R3:Close-sets-closed", r3, p.Pos(closeFn.Pos()), "Close never stores closed = true")
		return
	}
	// closed is only ever set
	for _, fr := range fieldRefs(p.RepoFns, x.fClosed) {
		if fr.Kind == "store" && !c19fresh(fr.Addr, fr.Fn) {
			c.Req(isConstBool(fr.Val, true), "C19.R3:closed-only-true:"+fnName(fr.Fn), r3, p.InstrPos(fr.Instr), "closed is reset (a closed conn comes back to life)")
		}
	}
	// what Close does on every path past the test
	mkDirect := func(match func(in ssa.Instruction) bool, edge EdgePred) func(ssa.Instruction) bool {
		return func(in ssa.Instruction) bool {
			if match(in) {
				return true
			}
			if call, ok := in.(*ssa.Call); ok {
				callee := staticCallee(call)
				if callee != nil && callee != closeFn && len(callee.Blocks) > 0 && p.IsRepoFn(callee) && c19hasReturn(callee) && fnPkg(callee) == fnPkg(closeFn) {
					return len(c19leaks(callee, nil, match, edge)) == 0
				}
			}
			return false
		}
	}
	type step struct {
		name  string
		match func(in ssa.Instruction) bool
		edge  EdgePred
		why   string
	}
	prevNil := func(cond ssa.Value, pol bool) bool {
		v, isNil, ok := nilTest(cond, pol)
		return ok && isNil && isLoadOfField(v, x.fPrev)
	}
	isChanClose := func(in ssa.Instruction) bool {
		call, ok := in.(*ssa.Call)
		return ok && isBuiltinCall(call, "close") && len(call.Call.Args) == 1 && isLoadOfField(call.Call.Args[0], x.fCloseChan)
	}
	steps := []step{
		{"closes-currentConn", func(in ssa.Instruction) bool {
			return isCloseOf(in, func(v ssa.Value) bool { return isLoadOfField(v, x.fCur) })
		}, closedTrue, "Close has a path that does not close currentConn"},
		{"closes-prevConn", func(in ssa.Instruction) bool {
			return isCloseOf(in, func(v ssa.Value) bool { return isLoadOfField(v, x.fPrev) })
		}, func(cond ssa.Value, pol bool) bool { return closedTrue(cond, pol) || prevNil(cond, pol) }, "Close has a path on which a non-nil prevConn stays open"},
		{"closes-closeChan", isChanClose, closedTrue, "Close has a path that does not close closeChan (blocked ReadFrom calls are never released)"},
		{"sets-closed", func(in ssa.Instruction) bool {
			st, ok := in.(*ssa.Store)
			if !ok {
				return false
			}
			fa, ok := st.Addr.(*ssa.FieldAddr)
			return ok && structField(fa.X.Type(), fa.Field) == x.fClosed && isConstBool(st.Val, true)
		}, closedTrue, "Close has a path that does not set closed (a later hop opens a new socket)"},
	}
	for _, s := range steps {
		leaks := c19leaks(closeFn, nil, mkDirect(s.match, s.edge), s.edge)
		detail := ""
		for _, l := range leaks {
			detail += " return at " + p.InstrPos(l)
		}
		c.Req(len(leaks) == 0, "C19.R3:Close-"+s.name, r3, p.Pos(closeFn.Pos()), s.why+":"+detail)
	}
	// test-and-set: closeChan is closed only behind a closed==false test that
	// shares its critical section with the store closed = true
	testAndSet := func(cond ssa.Value, pol bool) bool {
		if pol || !isLoadOfField(cond, x.fClosed) {
			return false
		}
		l, ok := resolve(cond).(ssa.Instruction)
		return ok && l.Parent() == stClosed.Parent() && x.la.sameRegion(l, stClosed, x.fMu, lockW)
	}
	nChan := 0
	for _, fn := range x.pkgFns {
		allInstrs(fn, func(in ssa.Instruction) {
			if !isChanClose(in) {
				return
			}
			nChan++
			c.Req(x.c19guardedUp(in, func(ssa.Instruction) EdgePred { return testAndSet }, 0), "C19.R3:closeChan-once:"+fnName(fn), r3, p.InstrPos(in), "closeChan can be closed twice: close(closeChan) is not behind a `closed == false` test that is atomic with setting closed (second Close panics)")
		})
	}
	c.Floor("C19.R3:closeChan-close", nChan, 1)

	// no socket is installed after Close
	nInst := 0
	for _, fr := range fieldRefs(p.RepoFns, x.fCur) {
		if fr.Kind != "store" || c19fresh(fr.Addr, fr.Fn) {
			continue
		}
		nInst++
		c.Req(x.c19guardedUp(fr.Instr, x.c19closedFalse, 0), "C19.R3:no-install-after-close:"+fnName(fr.Fn), r3, p.InstrPos(fr.Instr), "a new socket can be installed in currentConn after Close: the store is not behind a `closed == false` test made in the same critical section (the socket is never closed)")
	}
	c.Floor("C19.R3:install-sites", nInst, 1)

	// inner WriteTo gated; closed edge of WriteTo fails
	nW := 0
	for _, fn := range x.pkgFns {
		for _, ci := range x.c19innerWrites(fn) {
			nW++
			c.Req(x.c19guardedUp(ci.(ssa.Instruction), x.c19closedFalse, 0), "C19.R3:write-gated:"+fnName(fn), r3, p.InstrPos(ci.(ssa.Instruction)), "a packet can be written after Close: the socket WriteTo is not behind a `closed == false` test in the same critical section")
		}
	}
	c.Floor("C19.R3:inner-writes", nW, 1)
	{
		reach := blocksReachableAvoidingEdges(writeFn, func(cond ssa.Value, pol bool) bool {
			return !pol && isLoadOfField(cond, x.fClosed)
		})
		n, good, pos := 0, true, p.Pos(writeFn.Pos())
		allInstrs(writeFn, func(in ssa.Instruction) {
			r, ok := in.(*ssa.Return)
			if !ok || !reach[r.Block()] || r.Block() == writeFn.Recover {
				return
			}
			res := retResults(r)
			if len(res) == 0 {
				return
			}
			n++
			if !c19nonNilErr(res[len(res)-1]) {
				good = false
				pos = p.InstrPos(r)
			}
		})
		c.Req(n > 0 && good, "C19.R3:WriteTo-closed-error", r3, pos, "WriteTo can return without a non-nil error on a path that has not established closed == false")
	}

	// ReadFrom: receives are cancellable and the cancel arm fails
	nSel, nArm := 0, 0
	for _, fn := range x.pkgFns {
		allInstrs(fn, func(in ssa.Instruction) {
			switch y := in.(type) {
			case *ssa.UnOp:
				if y.Op == token.ARROW && isLoadOfField(y.X, x.fRecvQ) {
					c.Bad("C19.R3:recv-unblockable:"+fnName(fn), r3, p.InstrPos(y), "plain receive from recvQueue: a reader blocked here is not released by Close")
				}
			case *ssa.Select:
				if c19selectRecvIndex(y, x.fRecvQ) < 0 {
					return
				}
				nSel++
				k := c19selectRecvIndex(y, x.fCloseChan)
				if !c.Req(k >= 0 && y.Blocking, "C19.R3:recv-unblockable:"+fnName(fn), r3, p.InstrPos(y), "the select receiving from recvQueue has no closeChan arm: a blocked reader is not released by Close") {
					return
				}
				arm := func(cond ssa.Value, pol bool) bool {
					b, ok := cond.(*ssa.BinOp)
					if !ok || b.Op != token.EQL || !pol {
						return false
					}
					tup, idx := tupleSource(b.X)
					kk, isC := constInt(b.Y)
					return tup == ssa.Value(y) && idx == 0 && isC && int(kk) == k
				}
				good, pos := true, p.InstrPos(y)
				allInstrs(fn, func(in2 ssa.Instruction) {
					r, ok := in2.(*ssa.Return)
					if !ok || !guardedBy(r, arm) {
						return
					}
					nArm++
					res := retResults(r)
					if len(res) == 0 || !c19nonNilErr(res[len(res)-1]) {
						good = false
						pos = p.InstrPos(r)
					}
				})
				c.Req(good, "C19.R3:closed-arm-error:"+fnName(fn), r3, pos, "the closeChan arm returns without a non-nil error (a read after Close looks successful)")
			}
		})
	}
	c.Floor("C19.R3:recv-selects", nSel, 1)
	c.Floor("C19.R3:closed-arm-returns", nArm, 1)
}

// c19innerWrites: WriteTo invoked on a net.PacketConn inside the package.
func (x *c19ctx) c19innerWrites(fn *ssa.Function) []ssa.CallInstruction {
	return callsIn(fn, func(ci ssa.CallInstruction) bool {
		if !invokeIs(ci, "WriteTo") {
			return false
		}
		return types.Identical(ci.Common().Value.Type(), x.fCur.Type())
	})
}

// ---- R4 destination
func (x *c19ctx) c19R4(stClosed *ssa.Store) (parseFn, portsFn *ssa.Function) {
	c, p := x.c, x.p
	const r4 = "C19.R4 the socket WriteTo is invoked on the loaded currentConn with destination Addrs[addrIndex] of the same object; addrIndex is only stored as rand.Intn(len(Addrs)); Addrs is not replaced after construction; its elements are UDPAddr{IP: a.IP, Port: int(a.Ports[i])}; Ports is only stored as ParsePortUnion(s).Ports()"
	nW := 0
	for _, fn := range x.pkgFns {
		for _, ci := range x.c19innerWrites(fn) {
			nW++
			in := ci.(ssa.Instruction)
			key := fnName(fn)
			recv := ci.Common().Value
			root := accessPath(recv).Root
			c.Req(isLoadOfField(recv, x.fCur), "C19.R4:write-socket:"+key, r4, p.InstrPos(in), "packets are written to a socket other than currentConn (not the newest local socket)")
			good := false
			if len(ci.Common().Args) == 2 {
				if u, ok := resolve(ci.Common().Args[1]).(*ssa.UnOp); ok && u.Op == token.MUL {
					if ia, ok := u.X.(*ssa.IndexAddr); ok {
						good = isLoadOfField(ia.X, x.fAddrs) && isLoadOfField(ia.Index, x.fIdx) &&
							accessPath(ia.X).Root == root && accessPath(ia.Index).Root == root
					}
				}
			}
			c.Req(good, "C19.R4:write-dest:"+key, r4, p.InstrPos(in), "the destination of the socket WriteTo is not Addrs[addrIndex] of this conn (e.g. the caller-supplied address): packets can leave the configured port set")
		}
	}
	c.Floor("C19.R4:inner-writes", nW, 1)

	// addrIndex stores
	nIdx := 0
	for _, fr := range fieldRefs(p.RepoFns, x.fIdx) {
		if fr.Kind != "store" {
			continue
		}
		nIdx++
		root := accessPath(fr.Addr).Root
		good := false
		if call, ok := resolve(fr.Val).(*ssa.Call); ok {
			if f := staticCallee(call); f != nil && fnPkg(f) != nil {
				pp := fnPkg(f).Pkg.Path()
				if (pp == "math/rand" || pp == "math/rand/v2") && (f.Name() == "Intn" || f.Name() == "IntN") {
					args := callArgs(call)
					if len(args) == 1 {
						if lc, ok := resolve(args[0]).(*ssa.Call); ok && isBuiltinCall(lc, "len") {
							a := lc.Call.Args[0]
							if isLoadOfField(a, x.fAddrs) && accessPath(a).Root == root {
								good = true
							} else if c19fresh(fr.Addr, fr.Fn) {
								// the value stored to Addrs of the same new object
								for _, fr2 := range fieldRefs([]*ssa.Function{fr.Fn}, x.fAddrs) {
									if fr2.Kind == "store" && accessPath(fr2.Addr).Root == root && resolve(fr2.Val) == resolve(a) {
										good = true
									}
								}
							}
						}
					}
				}
			}
		}
		c.Req(good, "C19.R4:index-in-range:"+fnName(fr.Fn), r4, p.InstrPos(fr.Instr), "addrIndex is stored as something other than rand.Intn(len(Addrs)) of the same object: the index can leave [0, len(Addrs))")
	}
	c.Floor("C19.R4:index-stores", nIdx, 2)

	// Addrs stores
	var builder *ssa.Function
	for _, fr := range fieldRefs(p.RepoFns, x.fAddrs) {
		if fr.Kind != "store" {
			continue
		}
		key := "C19.R4:addrs-frozen:" + fnName(fr.Fn)
		if c19fresh(fr.Addr, fr.Fn) {
			tup, idx := tupleSource(fr.Val)
			if call, ok := tup.(*ssa.Call); ok && idx == 0 && staticCallee(call) != nil {
				builder = staticCallee(call)
			}
			c.Req(builder != nil, "C19.R4:addrs-built:"+fnName(fr.Fn), r4, p.InstrPos(fr.Instr), "Addrs of a new conn is not the result of the address builder")
			continue
		}
		good := isNilConst(fr.Val) && stClosed != nil && x.c19sameRegionEither(fr.Instr, stClosed, lockW)
		c.Req(good, key, r4, p.InstrPos(fr.Instr), "Addrs is replaced on a live conn (addrIndex was drawn for the old length)")
	}
	fPorts, fIP := p.Field(pUDPHop, "UDPHopAddr", "Ports"), p.Field(pUDPHop, "UDPHopAddr", "IP")
	if builder == nil || fPorts == nil || fIP == nil {
		c.Unres("address builder (callee whose result is stored in Addrs) / UDPHopAddr.Ports / UDPHopAddr.IP")
		return nil, nil
	}
	c.Saw(fnName(builder))
	nAlloc := 0
	allInstrs(builder, func(in ssa.Instruction) {
		al, ok := in.(*ssa.Alloc)
		if !ok {
			return
		}
		nn := namedOf(al.Type())
		if nn == nil || nn.Obj().Pkg() == nil || nn.Obj().Pkg().Path() != "net" || nn.Obj().Name() != "UDPAddr" {
			return
		}
		nAlloc++
		portOK, ipOK := false, false
		var roots []ssa.Value
		for _, r := range *al.Referrers() {
			fa, ok := r.(*ssa.FieldAddr)
			if !ok {
				continue
			}
			f := structField(fa.X.Type(), fa.Field)
			for _, r2 := range *fa.Referrers() {
				st, ok := r2.(*ssa.Store)
				if !ok || st.Addr != ssa.Value(fa) {
					continue
				}
				switch f.Name() {
				case "Port":
					if cv, ok := st.Val.(*ssa.Convert); ok {
						if u, ok := resolve(cv.X).(*ssa.UnOp); ok && u.Op == token.MUL {
							if ia, ok := u.X.(*ssa.IndexAddr); ok && isLoadOfField(ia.X, fPorts) {
								portOK = true
								roots = append(roots, accessPath(ia.X).Root)
							}
						}
					}
				case "IP":
					if isLoadOfField(st.Val, fIP) {
						ipOK = true
						roots = append(roots, accessPath(st.Val).Root)
					}
				}
			}
		}
		same := len(roots) == 2 && roots[0] == roots[1]
		if _, isParam := c19roots0(roots).(*ssa.Parameter); !isParam {
			same = false
		}
		c.Req(portOK && ipOK && same, "C19.R4:addr-from-port-set:"+fnName(builder), r4, p.InstrPos(al), fmt.Sprintf("a hop target is not UDPAddr{IP: a.IP, Port: int(a.Ports[i])} of the hop address (port-from-Ports=%v ip-from-IP=%v same-object=%v)", portOK, ipOK, same))
	})
	c.Floor("C19.R4:addr-literals", nAlloc, 1)

	// Ports only from the parsed expression
	parseFn, portsFn = p.Fn(pEUtils, "ParsePortUnion"), p.Fn(pEUtils, "(PortUnion).Ports")
	if parseFn == nil || portsFn == nil {
		c.Unres("utils.ParsePortUnion / (utils.PortUnion).Ports")
		return nil, nil
	}
	nP := 0
	for _, fr := range fieldRefs(p.RepoFns, fPorts) {
		if fr.Kind != "store" {
			continue
		}
		nP++
		good := false
		if call, ok := resolve(fr.Val).(*ssa.Call); ok && staticCallee(call) == portsFn && len(call.Call.Args) == 1 {
			if pc, ok := resolve(call.Call.Args[0]).(*ssa.Call); ok && staticCallee(pc) == parseFn {
				good = true
			}
		}
		c.Req(good, "C19.R4:ports-from-expression:"+fnName(fr.Fn), r4, p.InstrPos(fr.Instr), "UDPHopAddr.Ports is not ParsePortUnion(expr).Ports()")
	}
	c.Floor("C19.R4:ports-stores", nP, 1)
	return parseFn, portsFn
}

func c19roots0(r []ssa.Value) ssa.Value {
	if len(r) == 0 {
		return nil
	}
	return r[0]
}

// ---- R5 narrowing conversions in the port parser
func (x *c19ctx) c19R5(parseFn, portsFn *ssa.Function) {
	c, p := x.c, x.p
	if parseFn == nil || portsFn == nil {
		return
	}
	const r5 = "C19.R5 every conversion to uint16 in the port parser takes strconv.ParseUint(_, _, <=16), a constant in range, or an unsigned value bounded by a guard against a widened uint16; an induction variable bounded by `<=` is wider than its bound"
	// the parser = ParsePortUnion, Ports and the same-package functions they call
	set := map[*ssa.Function]bool{}
	var order []*ssa.Function
	var add func(fn *ssa.Function)
	add = func(fn *ssa.Function) {
		if fn == nil || set[fn] || len(fn.Blocks) == 0 || fnPkg(fn) != fnPkg(parseFn) {
			return
		}
		set[fn] = true
		order = append(order, fn)
		for _, a := range fn.AnonFuncs {
			add(a)
		}
		allInstrs(fn, func(in ssa.Instruction) {
			if ci, ok := in.(ssa.CallInstruction); ok {
				add(staticCallee(ci))
			}
		})
	}
	add(parseFn)
	add(portsFn)
	nConv, nInd := 0, 0
	for _, fn := range order {
		c.Saw(fnName(fn))
		ord := 0
		allInstrs(fn, func(in ssa.Instruction) {
			switch y := in.(type) {
			case *ssa.Convert:
				tb, ok := c19isInt(y.Type())
				if !ok || tb.Kind() != types.Uint16 {
					return
				}
				sb, ok := c19isInt(y.X.Type())
				if !ok || (c19unsigned(sb) && c19intBits(sb) <= 16) {
					return
				}
				if _, isConst := y.X.(*ssa.Const); isConst {
					return
				}
				nConv++
				ord++
				ok2, why := c19fitsU16(y.X, y, 0)
				c.Req(ok2, fmt.Sprintf("C19.R5:narrow:%s#%d", fnName(fn), ord), r5, p.InstrPos(y), "uint16("+y.X.Name()+") may truncate: "+why+" (a port above 65535 is silently mapped into the set)")
			case *ssa.Phi:
				// induction variable: one incoming value is phi + const
				ind := false
				for _, e := range y.Edges {
					if b, ok := e.(*ssa.BinOp); ok && b.Op == token.ADD && b.X == ssa.Value(y) {
						if _, isC := constInt(b.Y); isC {
							ind = true
						}
					}
				}
				if !ind {
					return
				}
				pb, ok := c19isInt(y.Type())
				if !ok {
					return
				}
				for _, r := range *y.Referrers() {
					b, ok := r.(*ssa.BinOp)
					if !ok {
						continue
					}
					// `i <= B`, `B >= i` and their negations `i > B`, `B < i`
					// (break / inverted branch) all keep the loop running while i <= B
					var bound ssa.Value
					if (b.Op == token.LEQ || b.Op == token.GTR) && b.X == ssa.Value(y) {
						bound = b.Y
					} else if (b.Op == token.GEQ || b.Op == token.LSS) && b.Y == ssa.Value(y) {
						bound = b.X
					} else {
						continue
					}
					nInd++
					good := false
					if cv, ok := bound.(*ssa.Convert); ok {
						if bb, ok := c19isInt(cv.X.Type()); ok && c19intBits(bb) < c19intBits(pb) && c19unsigned(bb) {
							good = true
						}
					}
					if k, isC := constInt(bound); isC && k < 1<<uint(c19intBits(pb)-1)-1 {
						good = true
					}
					c.Req(good, "C19.R5:induction-width:"+fnName(fn)+":"+y.Comment, r5, p.InstrPos(b), "loop `"+y.Comment+" <= bound` over a "+pb.Name()+" counter whose bound can be the type's maximum: the increment wraps and the loop never ends (port 65535)")
				}
			}
		})
	}
	// 5 on the pinned tree (4 in ParsePortUnion, 1 in Ports); a parse helper
	// shared by the single-port and range branches legitimately leaves 3
	c.Floor("C19.R5:narrowing-conversions", nConv, 3)
	c.Floor("C19.R5:bounded-inductions", nInd, 1)
}

// c19fitsU16: v (an integer wider than uint16 or signed) provably lies in
// [0, 65535] at instruction `at`.
func c19fitsU16(v ssa.Value, at ssa.Instruction, depth int) (bool, string) {
	if depth > 4 {
		return false, "value flow too deep"
	}
	if k, ok := constInt(v); ok {
		if k >= 0 && k <= 65535 {
			return true, ""
		}
		return false, "constant out of range"
	}
	if ph, ok := v.(*ssa.Phi); ok {
		// a guarded induction variable is discharged by the guard below; otherwise all inputs must fit
		if ok2, _ := c19guardFits(v, at); ok2 {
			return true, ""
		}
		for _, e := range ph.Edges {
			if ok2, why := c19fitsU16(e, at, depth+1); !ok2 {
				return false, why
			}
		}
		return true, ""
	}
	if tup, idx := tupleSource(v); tup != nil && idx == 0 {
		if call, ok := tup.(*ssa.Call); ok && calleeIs(call, "strconv", "ParseUint") && len(call.Call.Args) == 3 {
			bits, isC := constInt(call.Call.Args[2])
			if isC && bits >= 1 && bits <= 16 {
				return true, ""
			}
			return false, "strconv.ParseUint is not limited to 16 bits"
		}
	}
	if c19widened(v, 16) {
		return true, ""
	}
	// a result of a repository helper that only hands back (a selection of) its
	// arguments or in-range constants: `lo, hi := orderPair(a, b)`
	{
		var call *ssa.Call
		idx := 0
		if tup, i := tupleSource(v); tup != nil {
			call, _ = tup.(*ssa.Call)
			idx = i
		} else if cl, ok := v.(*ssa.Call); ok {
			call = cl
		}
		if call != nil {
			if f := staticCallee(call); f != nil && len(f.Blocks) > 0 && f.Pkg != nil && call.Parent() != nil && f.Pkg == call.Parent().Pkg {
				all, n := true, 0
				var leaf func(r ssa.Value, d int) bool
				leaf = func(r ssa.Value, d int) bool {
					if d > 4 {
						return false
					}
					switch y := r.(type) {
					case *ssa.Parameter:
						for i, pa := range f.Params {
							if pa == y && i < len(call.Call.Args) {
								ok2, _ := c19fitsU16(call.Call.Args[i], at, depth+1)
								return ok2
							}
						}
						return false
					case *ssa.Const:
						k, ok := constInt(y)
						return ok && k >= 0 && k <= 65535
					case *ssa.Phi:
						for _, e := range y.Edges {
							if !leaf(e, d+1) {
								return false
							}
						}
						return true
					}
					return false
				}
				allInstrs(f, func(in ssa.Instruction) {
					ret, ok := in.(*ssa.Return)
					if !ok {
						return
					}
					rs := retResults(ret)
					if idx >= len(rs) {
						all = false
						return
					}
					n++
					if !leaf(rs[idx], 0) {
						all = false
					}
				})
				if all && n > 0 {
					return true, ""
				}
			}
		}
	}
	if call, ok := v.(*ssa.Call); ok && (isBuiltinCall(call, "min") || isBuiltinCall(call, "max")) {
		for _, a := range call.Call.Args {
			if ok2, why := c19fitsU16(a, at, depth+1); !ok2 {
				return false, why
			}
		}
		return true, ""
	}
	return c19guardFits(v, at)
}

// c19guardFits: `at` is reachable only over an edge v <= w / v < w with w a
// widened uint16, v unsigned.
func c19guardFits(v ssa.Value, at ssa.Instruction) (bool, string) {
	b, ok := c19isInt(v.Type())
	if !ok || !c19unsigned(b) {
		return false, "operand is signed or not an integer and no 16-bit parse bounds it"
	}
	pred := func(cond ssa.Value, pol bool) bool {
		bo, ok := cond.(*ssa.BinOp)
		if !ok {
			return false
		}
		switch {
		case (bo.Op == token.LEQ || bo.Op == token.LSS) && pol && bo.X == v:
			return c19widened(bo.Y, 16)
		case (bo.Op == token.GEQ || bo.Op == token.GTR) && pol && bo.Y == v:
			return c19widened(bo.X, 16)
		case (bo.Op == token.GTR || bo.Op == token.GEQ) && !pol && bo.X == v:
			// !(v > w)  => v <= w ; !(v >= w) => v < w
			return c19widened(bo.Y, 16)
		case (bo.Op == token.LSS || bo.Op == token.LEQ) && !pol && bo.Y == v:
			return c19widened(bo.X, 16)
		}
		return false
	}
	if guardedBy(at, pred) {
		return true, ""
	}
	return false, "no guard bounds the operand by a uint16 value"
}

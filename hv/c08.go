package main

import (
	"fmt"
	"go/token"
	"go/types"
	"regexp"
	"strings"

	"golang.org/x/tools/go/ssa"
)

func init() {
	register(&propDef{
		ID:        "C08",
		Run:       checkC08,
		Technique: "static analysis: edge-guard reachability with value identity on the write's address operand, map-update census of the decision cache, sibling agreement of CheckUDP vs UDP pipelines (go/ssa)",
		Explanation: "R1 every UDPConn.WriteTo in core/server is in the session's Feed and, per source of its address operand, is reachable only over the OverrideAddr!=\"\" edge (address = the override) or over the nil-verdict edge of checkAddr applied to that same address value; " +
			"R2 every update of the per-session decision cache stores, under the looked-up key, the verdict CheckUDP returned for that same key, the hit path returns the cached value, every miss performs the CheckUDP call (no len(cache) shortcut), and the allowed-seed is written only after a successful initConn on the same message and only when no override is active; the dial closure dials the address it reports; " +
			"R3 OverrideAddr/OriginalAddr are written only in initConn on the address-changed edge and replies substitute OriginalAddr when set; " +
			"R4 for every PluggableOutbound implementation, CheckUDP walks the same pre-delegation pipeline as UDP (same helper calls with the same constant arguments, delegation to the same next stage), leaves that always refuse UDP refuse CheckUDP, and the string adapter parses addresses through the same helpers in UDP, CheckUDP and WriteTo; R5 the server-side udpIO CheckUDP returns on every path the outbound's CheckUDP verdict for the asked address or a non-nil error.",
		NotDecided: []string{
			"that the policy predicate itself is right (C09)",
			"behaviour of real sockets / the outbound implementations' dialing",
		},
		Assumptions: []string{"value identity = same SSA value or two loads of the same field path of the same object within one function (no intervening store is checked only for the dial closure's address)"},
	})
}

func blockGuardedBy(b *ssa.BasicBlock, pred EdgePred) bool {
	return !blocksReachableAvoidingEdges(b.Parent(), pred)[b]
}

func srcGuarded(from, to *ssa.BasicBlock, pred EdgePred) bool {
	if to == nil {
		return blockGuardedBy(from, pred)
	}
	return cfgEdgeGuardedBy(from, to, pred)
}

// cfgEdgeGuardedBy: every path that takes the CFG edge from→to crossed an
// accepted edge (possibly from→to itself).
func cfgEdgeGuardedBy(from, to *ssa.BasicBlock, pred EdgePred) bool {
	for i, s := range from.Succs {
		if s == to {
			if c, pol, ok := edgeFact(from, i); ok && pred(c, pol) {
				return true
			}
		}
	}
	return blockGuardedBy(from, pred)
}

// strEmptyTest decomposes `x != ""` / `x == ""`: returns x and whether the
// edge means "x is non-empty".
func strEmptyTest(cond ssa.Value, pol bool) (ssa.Value, bool, bool) {
	b, ok := cond.(*ssa.BinOp)
	if !ok || (b.Op != token.EQL && b.Op != token.NEQ) {
		return nil, false, false
	}
	var x ssa.Value
	if s, ok := constString(b.Y); ok && s == "" {
		x = b.X
	} else if s, ok := constString(b.X); ok && s == "" {
		x = b.Y
	} else {
		return nil, false, false
	}
	nonEmpty := (b.Op == token.NEQ) == pol
	return x, nonEmpty, true
}

func checkC08(c *Check) {
	p := c.P
	feed := p.Fn(pServer, "(*udpSessionEntry).Feed")
	checkAddr := p.Fn(pServer, "(*udpSessionEntry).checkAddr")
	initConn := p.Fn(pServer, "(*udpSessionEntry).initConn")
	recvLoop := p.Fn(pServer, "(*udpSessionEntry).receiveLoop")
	fOverride := p.Field(pServer, "udpSessionEntry", "OverrideAddr")
	fOriginal := p.Field(pServer, "udpSessionEntry", "OriginalAddr")
	fCache := p.Field(pServer, "udpSessionEntry", "aclCache")
	fConn := p.Field(pServer, "udpSessionEntry", "conn")
	if feed == nil || checkAddr == nil || initConn == nil || recvLoop == nil || fOverride == nil || fOriginal == nil || fCache == nil || fConn == nil {
		c.Unres("core/server udpSessionEntry.{Feed,checkAddr,initConn,receiveLoop,OverrideAddr,OriginalAddr,aclCache,conn}")
		return
	}
	for _, f := range []*ssa.Function{feed, checkAddr, initConn, recvLoop} {
		c.Saw(fnName(f))
	}
	udpConnT := p.Named(pServer, "UDPConn")

	// ---- R1 gate on every write
	const r1 = "C08.R1 every UDPConn.WriteTo in core/server is reachable only over the override edge (address = OverrideAddr) or over the nil-verdict edge of checkAddr(same address)"
	nWrites := 0
	for _, fn := range p.RepoFns {
		if pk := fnPkg(fn); pk == nil || pk.Pkg.Path() != pServer {
			continue
		}
		for _, ci := range callsIn(fn, func(ci ssa.CallInstruction) bool {
			return invokeIs(ci, "WriteTo") && udpConnT != nil && types.Identical(ci.Common().Value.Type(), udpConnT)
		}) {
			nWrites++
			key := "C08.R1:" + fnName(fn) + "→UDPConn.WriteTo"
			if !c.Req(fn == feed, key+":where", r1, p.InstrPos(ci), "a datagram is written to a session socket outside the policy-checking Feed") {
				continue
			}
			addr := ci.Common().Args[1]
			type src struct {
				v  ssa.Value
				b  *ssa.BasicBlock
				to *ssa.BasicBlock
			}
			var srcs []src
			if ph, ok := addr.(*ssa.Phi); ok {
				for i, e := range ph.Edges {
					srcs = append(srcs, src{e, ph.Block().Preds[i], ph.Block()})
				}
			} else {
				srcs = []src{{addr, ci.Block(), nil}}
			}
			for _, s := range srcs {
				v := s.v
				if isLoadOfField(v, fOverride) {
					ok := srcGuarded(s.b, s.to, func(cond ssa.Value, pol bool) bool {
						x, nonEmpty, ok := strEmptyTest(cond, pol)
						return ok && nonEmpty && isLoadOfField(x, fOverride)
					})
					c.Req(ok, key+":override-source", r1, p.InstrPos(ci), "the override address is used on a path where OverrideAddr may be empty")
					continue
				}
				// an address computed by a repository helper is beyond this rule's
				// intraprocedural reach: undecided (broken check), not a violation
				{
					rv := resolve(v)
					if tup, _ := tupleSource(rv); tup != nil {
						rv = tup
					}
					if hc, ok := rv.(*ssa.Call); ok {
						if f := staticCallee(hc); f != nil && p.IsRepoFn(f) {
							// (addr, err) helper: used only behind its nil-error edge, and every nil-error
							// return of the helper hands back the override (behind its non-empty test) or a
							// value that passed checkAddr(value) == nil inside the helper
							if good, decided := c08AddrHelper(p, f, hc, ci, fOverride, checkAddr); decided {
								c.Req(good, key+":checked-source", r1, p.InstrPos(ci), "the address helper "+fnName(f)+" can hand back an address that neither is the non-empty override nor passed checkAddr(that address) == nil, or its result is used without testing its error")
								continue
							}
							c.Undecided(key+":checked-source", r1, p.InstrPos(ci), "destination is produced by helper "+fnName(f)+"; the rule does not follow addresses through helpers of this shape")
							continue
						}
					}
				}
				// must have passed checkAddr(v) == nil
				ok := srcGuarded(s.b, s.to, func(cond ssa.Value, pol bool) bool {
					x, isNil, ok := nilTest(cond, pol)
					if !ok || !isNil {
						return false
					}
					call, ok := resolve(x).(*ssa.Call)
					if !ok || staticCallee(call) != checkAddr {
						return false
					}
					return sameValue(call.Call.Args[1], v)
				})
				c.Req(ok, key+":checked-source", r1, p.InstrPos(ci), "a path reaches WriteTo with an address that did not pass checkAddr(that address) == nil and is not the override")
			}
			// and the socket is the session's own
			c.Req(isLoadOfField(ci.Common().Value, fConn), key+":own-socket", r1, p.InstrPos(ci), "WriteTo goes to a socket other than the session's conn")
		}
	}
	c.Floor("C08.R1:writeto-sites", nWrites, 1)

	// ---- R2 cache holds only the verdict for its own key
	const r2 = "C08.R2 the decision cache maps a key to the CheckUDP verdict of that same key; hits return the cached value; every miss calls CheckUDP; the allowed-seed follows a successful dial of that address with no override"
	nUpd := 0
	for _, fr := range fieldRefs(p.RepoFns, fCache) {
		if fr.Kind != "load" {
			continue
		}
		for _, mo := range mapOpsOn(fr.Val) {
			if mo.Kind != "update" {
				continue
			}
			nUpd++
			mu := mo.Instr.(*ssa.MapUpdate)
			key := "C08.R2:update:" + fnName(fr.Fn)
			if !c.Req(fr.Fn == checkAddr, key+":where", r2, p.InstrPos(mu), "decision cache written outside checkAddr") {
				continue
			}
			prm := checkAddr.Params[1]
			c.Req(resolve(mu.Key) == ssa.Value(prm), key+":key", r2, p.InstrPos(mu), "the verdict is cached under a key other than the address being checked")
			call, ok := resolve(mu.Value).(*ssa.Call)
			good := ok && invokeIs(call, "CheckUDP") && len(call.Call.Args) == 1 && resolve(call.Call.Args[0]) == ssa.Value(prm)
			c.Req(good, key+":value", r2, p.InstrPos(mu), "the cached value is not the CheckUDP verdict of the same address")
		}
	}
	c.Floor("C08.R2:update", nUpd, 1)
	// returns of checkAddr: cached value on the hit edge, CheckUDP(addr) otherwise
	{
		prm := checkAddr.Params[1]
		allInstrs(checkAddr, func(in ssa.Instruction) {
			r, ok := in.(*ssa.Return)
			if !ok {
				return
			}
			res := retResults(r)
			if len(res) != 1 {
				return
			}
			// one (value, incoming edge) pair per phi edge
			type rsrc struct {
				v        ssa.Value
				from, to *ssa.BasicBlock
			}
			var srcs []rsrc
			if ph, ok := res[0].(*ssa.Phi); ok {
				for i, e := range ph.Edges {
					srcs = append(srcs, rsrc{resolve(e), ph.Block().Preds[i], ph.Block()})
				}
			} else {
				srcs = []rsrc{{resolve(res[0]), r.Block(), nil}}
			}
			for _, s := range srcs {
				v := s.v
				if call, ok := v.(*ssa.Call); ok && invokeIs(call, "CheckUDP") && resolve(call.Call.Args[0]) == ssa.Value(prm) {
					c.OK("C08.R2:return:miss", r2, p.InstrPos(r))
					continue
				}
				if tup, idx := tupleSource(v); tup != nil && idx == 0 {
					if lk, ok := tup.(*ssa.Lookup); ok && lk.CommaOk && resolve(lk.Index) == ssa.Value(prm) && isLoadOfField(lk.X, fCache) {
						okv := extractOf(lk, 1)
						hit := srcGuarded(s.from, s.to, func(cond ssa.Value, pol bool) bool { return pol && okv != nil && resolve(cond) == okv })
						c.Req(hit, "C08.R2:return:hit", r2, p.InstrPos(r), "cached value returned without the comma-ok hit test")
						continue
					}
				}
				c.Bad("C08.R2:return:other", r2, p.InstrPos(r), "checkAddr returns something that is neither the cached verdict for this address nor CheckUDP(this address) (e.g. an allow when the cache is full)")
			}
		})
	}
	// the seed in Feed
	{
		nSeed := 0
		allInstrs(feed, func(in ssa.Instruction) {
			st, ok := in.(*ssa.Store)
			if !ok {
				return
			}
			fa, ok := st.Addr.(*ssa.FieldAddr)
			if !ok || structField(fa.X.Type(), fa.Field) != fCache {
				return
			}
			nSeed++
			key := "C08.R2:seed"
			mm, ok := st.Val.(*ssa.MakeMap)
			if !c.Req(ok, key+":literal", r2, p.InstrPos(st), "decision cache replaced by something other than a fresh literal") {
				return
			}
			// entries of the literal
			var initCall *ssa.Call
			allInstrs(feed, func(x ssa.Instruction) {
				if call, ok := x.(*ssa.Call); ok && staticCallee(call) == initConn {
					initCall = call
				}
			})
			for _, r := range *mm.Referrers() {
				mu, ok := r.(*ssa.MapUpdate)
				if !ok {
					continue
				}
				c.Req(isNilConst(mu.Value), key+":value", r2, p.InstrPos(mu), "seed caches a verdict other than allow")
				// key is msg.Addr of the message given to initConn
				kp := accessPath(mu.Key)
				good := initCall != nil && len(kp.Fields) == 1 && kp.Fields[0].Name() == "Addr" && kp.Root == resolve(initCall.Call.Args[1])
				c.Req(good, key+":key", r2, p.InstrPos(mu), "seeded key is not the address of the message the session was dialled with")
			}
			okInit := initCall != nil && guardedBy(st, func(cond ssa.Value, pol bool) bool {
				x, isNil, ok := nilTest(cond, pol)
				return ok && isNil && resolve(x) == ssa.Value(initCall)
			})
			c.Req(okInit, key+":after-dial", r2, p.InstrPos(st), "seed written without a successful initConn")
			okNoOv := guardedBy(st, func(cond ssa.Value, pol bool) bool {
				x, nonEmpty, ok := strEmptyTest(cond, pol)
				return ok && !nonEmpty && isLoadOfField(x, fOverride)
			})
			c.Req(okNoOv, key+":no-override", r2, p.InstrPos(st), "seed written even when the hook rewrote the address (the dialled address is not the message address)")
		})
		_ = nSeed // the seed is an optimisation: without it every first datagram is simply checked
	}
	// dial closure: the address dialled is the address reported
	{
		var dial *ssa.Function
		// DialFunc closures: functions whose body invokes udpIO.UDP
		for _, fn := range p.RepoFns {
			if pk := fnPkg(fn); pk == nil || pk.Pkg.Path() != pServer || fn.Parent() == nil {
				continue
			}
			for range callsIn(fn, func(ci ssa.CallInstruction) bool {
				if !invokeIs(ci, "UDP") {
					return false
				}
				nn := namedOf(ci.Common().Value.Type())
				return nn != nil && nn.Obj().Name() == "udpIO"
			}) {
				dial = fn
			}
		}
		if dial == nil {
			c.Unres("the dial closure invoking udpIO.UDP")
		} else {
			c.Saw(fnName(dial))
			var hook, udp ssa.CallInstruction
			allInstrs(dial, func(in ssa.Instruction) {
				if ci, ok := in.(ssa.CallInstruction); ok {
					if invokeIs(ci, "Hook") {
						hook = ci
					}
					if invokeIs(ci, "UDP") {
						udp = ci
					}
				}
			})
			good := false
			detail := "dial closure shape not recognised"
			if hook != nil && udp != nil {
				// address cell = the alloc passed to Hook
				cell, _ := hook.Common().Args[1].(*ssa.Alloc)
				if cell != nil {
					u, ok := udp.Common().Args[0].(*ssa.UnOp)
					dialsCell := ok && u.Op == token.MUL && u.X == ssa.Value(cell) && dominates(hook, u)
					// reported address: result #1
					reports := false
					allInstrs(dial, func(in ssa.Instruction) {
						r, ok := in.(*ssa.Return)
						if !ok {
							return
						}
						res := retResults(r)
						if len(res) != 3 {
							return
						}
						if !reachableAfter(udp, r) {
							return
						}
						// value stored in the named result: look at stores to result alloc
						rv := res[1]
						if u3, ok := rv.(*ssa.UnOp); ok && u3.Op == token.MUL && u3.X == ssa.Value(cell) && dominates(hook, u3) {
							reports = true
						} else if u2, ok := rv.(*ssa.UnOp); ok && u2.Op == token.MUL {
							if al, ok := u2.X.(*ssa.Alloc); ok {
								for _, ref := range *al.Referrers() {
									if st, ok := ref.(*ssa.Store); ok && st.Addr == ssa.Value(al) {
										if u3, ok := st.Val.(*ssa.UnOp); ok && u3.Op == token.MUL && u3.X == ssa.Value(cell) && dominates(hook, u3) {
											reports = true
										}
									}
								}
							}
						}
					})
					// no store to the cell after the hook
					clean := true
					for _, ref := range *cell.Referrers() {
						if st, ok := ref.(*ssa.Store); ok && st.Addr == ssa.Value(cell) && reachableAfter(hook, st) {
							clean = false
						}
					}
					good = dialsCell && reports && clean
					detail = fmt.Sprintf("dials-hooked-address=%v reports-it=%v unchanged-after-hook=%v", dialsCell, reports, clean)
				}
			}
			c.Req(good, "C08.R2:dial-closure", r2, p.Pos(dial.Pos()), "the dial closure must dial exactly the (possibly hook-rewritten) address it reports as actualAddr: "+detail)
		}
	}

	// ---- R3 override bookkeeping
	const r3 = "C08.R3 OverrideAddr/OriginalAddr are written only in initConn on the `message address != dialled address` edge; the reply loop reports OriginalAddr when set"
	var dialCall *ssa.Call
	// initConn, or the helper of its package the dialling part was moved into
	dialFn := initConn
	for _, g := range helperGroup(p, initConn, func(f *ssa.Function) bool { return fnPkg(f) == fnPkg(initConn) }) {
		allInstrs(g, func(in ssa.Instruction) {
			if call, ok := in.(*ssa.Call); ok && dialCall == nil && !call.Call.IsInvoke() && staticCallee(call) == nil {
				if ap := accessPath(call.Call.Value); len(ap.Fields) == 1 && ap.Fields[0].Name() == "DialFunc" {
					dialCall, dialFn = call, g
				}
			}
		})
	}
	var firstMsg ssa.Value
	for _, prm := range dialFn.Params {
		if n := namedOf(prm.Type()); n != nil && n.Obj().Name() == "UDPMessage" {
			firstMsg = prm
		}
	}
	if dialCall == nil || firstMsg == nil {
		c.Unres("call of e.DialFunc in initConn (or a helper of it) with the first message as a parameter")
	} else {
		actual := extractOf(dialCall, 1)
		changed := func(cond ssa.Value, pol bool) bool {
			b, ok := cond.(*ssa.BinOp)
			if !ok || !((b.Op == token.NEQ && pol) || (b.Op == token.EQL && !pol)) {
				return false
			}
			isMsgAddr := func(v ssa.Value) bool {
				ap := accessPath(v)
				return len(ap.Fields) == 1 && ap.Fields[0].Name() == "Addr" && ap.Root == firstMsg
			}
			return actual != nil && ((isMsgAddr(b.X) && resolve(b.Y) == actual) || (isMsgAddr(b.Y) && resolve(b.X) == actual))
		}
		for _, f := range []*types.Var{fOverride, fOriginal} {
			n := 0
			for _, fr := range fieldRefs(p.RepoFns, f) {
				if fr.Kind != "store" {
					continue
				}
				n++
				key := "C08.R3:store:" + f.Name() + ":" + fnName(fr.Fn)
				good := fr.Fn == dialFn && guardedBy(fr.Instr, changed)
				if good {
					if f == fOverride {
						good = resolve(fr.Val) == actual
					} else {
						ap := accessPath(fr.Val)
						good = len(ap.Fields) == 1 && ap.Fields[0].Name() == "Addr" && ap.Root == firstMsg
					}
				}
				c.Req(good, key, r3, p.InstrPos(fr.Instr), f.Name()+" written outside the address-changed edge of initConn or with the wrong value")
			}
			c.Floor("C08.R3:store:"+f.Name(), n, 1)
		}
		// message address passed to the dial is the first message's
		ap := accessPath(dialCall.Call.Args[0])
		c.Req(len(ap.Fields) == 1 && ap.Fields[0].Name() == "Addr" && ap.Root == firstMsg, "C08.R3:dial-arg", r3, p.InstrPos(dialCall), "DialFunc is not given the first message's address")
	}
	// reply loop: Addr of outgoing message is ReadFrom's address or OriginalAddr when non-empty
	{
		good := false
		var replyFns []*ssa.Function
		for _, fn := range p.RepoFns {
			if pk := fnPkg(fn); pk != nil && pk.Pkg.Path() == pServer {
				replyFns = append(replyFns, fn)
			}
		}
		for _, rf := range replyFns {
		allInstrs(rf, func(in ssa.Instruction) {
			st, ok := in.(*ssa.Store)
			if !ok {
				return
			}
			fa, ok := st.Addr.(*ssa.FieldAddr)
			if !ok {
				return
			}
			f := structField(fa.X.Type(), fa.Field)
			if f == nil || f.Name() != "Addr" || namedOf(fa.X.Type()) == nil || namedOf(fa.X.Type()).Obj().Name() != "UDPMessage" {
				return
			}
			ph, ok := st.Val.(*ssa.Phi)
			if !ok {
				return
			}
			hasOrig, hasRead := false, false
			for i, e := range ph.Edges {
				if isLoadOfField(e, fOriginal) {
					hasOrig = cfgEdgeGuardedBy(ph.Block().Preds[i], ph.Block(), func(cond ssa.Value, pol bool) bool {
						x, nonEmpty, ok := strEmptyTest(cond, pol)
						return ok && nonEmpty && isLoadOfField(x, fOriginal)
					})
				} else if tup, idx := tupleSource(e); tup != nil && idx == 1 {
					if call, ok := tup.(*ssa.Call); ok && invokeIs(call, "ReadFrom") {
						// the socket's own address is used only when no original address is recorded
						hasRead = cfgEdgeGuardedBy(ph.Block().Preds[i], ph.Block(), func(cond ssa.Value, pol bool) bool {
							x, nonEmpty, ok := strEmptyTest(cond, pol)
							return ok && !nonEmpty && isLoadOfField(x, fOriginal)
						})
					}
				}
			}
			if hasOrig || hasRead {
				good = hasOrig && hasRead
			}
		})
		}
		c.Req(good, "C08.R3:reply-uses-original", r3, p.Pos(recvLoop.Pos()), "replies of a hooked session are not reported from the original address")
	}

	// ---- R5 the server glue hands the policy question to the outbound unchanged
	// (added after an independent seeded change was missed)
	{
		const r5 = "C08.R5 the server's udpIO CheckUDP returns, on every path, the configured outbound's CheckUDP verdict for the very address it was asked about, or a non-nil error: no allow is decided in the glue (e.g. because a request hook claims the address)"
		nGlue := 0
		var glue []*ssa.Function
		if ioT := p.Named(pServer, "udpIO"); ioT != nil {
			if ioI, ok := ioT.Underlying().(*types.Interface); ok {
				for _, it := range p.Implementations(ioI) {
					if m := p.MethodOf(it, "CheckUDP"); m != nil && p.IsRepoFn(m) {
						glue = append(glue, m)
					}
				}
			}
		} else {
			c.Unres("core/server.udpIO")
		}
		for _, fn := range glue {
			if len(fn.Params) != 2 || len(fn.Blocks) == 0 {
				continue
			}
			nGlue++
			c.Saw(fnName(fn))
			prm := fn.Params[1]
			var leafOK func(v ssa.Value, d int) bool
			leafOK = func(v ssa.Value, d int) bool {
				if d > 6 {
					return false
				}
				if ph, ok := v.(*ssa.Phi); ok {
					for _, e := range ph.Edges {
						if !leafOK(e, d+1) {
							return false
						}
					}
					return true
				}
				if call, ok := resolve(v).(*ssa.Call); ok && invokeIs(call, "CheckUDP") && len(call.Call.Args) == 1 && resolve(call.Call.Args[0]) == ssa.Value(prm) {
					return true
				}
				return c19nonNilErr(v)
			}
			nRet := 0
			allInstrs(fn, func(in ssa.Instruction) {
				r, ok := in.(*ssa.Return)
				if !ok || r.Block() == fn.Recover {
					return
				}
				rs := retResults(r)
				if len(rs) != 1 {
					return
				}
				nRet++
				c.Req(leafOK(rs[0], 0), fmt.Sprintf("C08.R5:glue-verdict:%s#%d", fnName(fn), nRet), r5, p.InstrPos(r), "this return of the server-side CheckUDP is not the outbound's CheckUDP verdict for the asked address (nor a refusal): a datagram of an established session is forwarded to a destination the outbound policy was never asked about")
			})
		}
		c.Floor("C08.R5:glue-checkudp", nGlue, 1)
	}

	// ---- R4 CheckUDP walks the same pipeline as UDP
	const r4 = "C08.R4 for each PluggableOutbound implementation CheckUDP performs the same pre-delegation calls (same callees, same constant arguments) as UDP and delegates to the same next stage; leaves that always refuse UDP refuse CheckUDP; the string adapter parses through the same helpers"
	poT := p.Named(pOutbounds, "PluggableOutbound")
	if poT == nil {
		c.Unres("outbounds.PluggableOutbound")
		return
	}
	poI := poT.Underlying().(*types.Interface)
	nWrap := 0
	for _, it := range p.Implementations(poI) {
		udp := p.MethodOf(it, "UDP")
		chk := p.MethodOf(it, "CheckUDP")
		if udp == nil || chk == nil || !p.IsRepoFn(udp) || !p.IsRepoFn(chk) {
			continue
		}
		c.Saw(fnName(udp))
		c.Saw(fnName(chk))
		name := namedOf(it).Obj().Name()
		key := "C08.R4:" + name
		du := delegation(udp, "UDP", poT)
		dc := delegation(chk, "CheckUDP", poT)
		if du.call != nil {
			nWrap++
			if !c.Req(dc.call != nil, key+":delegates", r4, p.Pos(chk.Pos()), "UDP delegates to the next outbound but CheckUDP does not") {
				continue
			}
			c.Req(du.pre == dc.pre, key+":same-pipeline", r4, p.Pos(chk.Pos()), fmt.Sprintf("pre-delegation calls differ: UDP does [%s], CheckUDP does [%s]", du.pre, dc.pre))
			c.Req(du.dargs == dc.dargs, key+":same-request-passed-on", r4, p.Pos(chk.Pos()), fmt.Sprintf("UDP hands the next stage %s but CheckUDP hands it %s: the check is evaluated on a different request (e.g. a copy that lost the resolved addresses) than the one that is dialled", du.dargs, dc.dargs))
			c.Req(du.target == dc.target, key+":same-next", r4, p.Pos(chk.Pos()), fmt.Sprintf("UDP delegates to %s but CheckUDP to %s", du.target, dc.target))
			c.Req(dc.returnsDelegate, key+":verdict-returned", r4, p.Pos(chk.Pos()), "CheckUDP does not return the next stage's verdict on every path")
		} else {
			// leaf: if UDP can never succeed, CheckUDP must refuse
			if alwaysErrors(udp) {
				c.Req(alwaysErrors(chk), key+":leaf-refuses", r4, p.Pos(chk.Pos()), "UDP always fails for this outbound but CheckUDP can return nil (datagrams would be accepted for a destination that can never be dialled)")
			} else {
				c.OK(key+":leaf", r4, p.Pos(chk.Pos()))
			}
		}
	}
	c.Floor("C08.R4:wrappers", nWrap, 5)
	// adapter
	{
		ad := []*ssa.Function{p.Fn(pOutbounds, "(*PluggableOutboundAdapter).UDP"), p.Fn(pOutbounds, "(*PluggableOutboundAdapter).CheckUDP"), p.Fn(pOutbounds, "(*udpConnAdapter).WriteTo")}
		meth := []string{"UDP", "CheckUDP", "WriteTo"}
		var pres []string
		okAll := true
		for i, f := range ad {
			if f == nil {
				c.Unres("outbounds adapter method " + meth[i])
				okAll = false
				continue
			}
			c.Saw(fnName(f))
			var iface *types.Named = poT
			if meth[i] == "WriteTo" {
				iface = p.Named(pOutbounds, "UDPConn")
			}
			d := delegation(f, meth[i], iface)
			if d.call == nil {
				c.Bad("C08.R4:adapter:"+meth[i]+":delegates", r4, p.Pos(f.Pos()), "adapter method does not delegate")
				okAll = false
				continue
			}
			// parameter positions differ between UDP(addr) and WriteTo(b, addr): compare callees and constants only
			pres = append(pres, paramTok.ReplaceAllString(d.pre, "·")+"|"+d.addrShape)
		}
		if okAll && len(pres) == 3 {
			c.Req(pres[0] == pres[1] && pres[1] == pres[2], "C08.R4:adapter:same-parsing", r4, p.Pos(ad[1].Pos()), "the adapter parses the destination differently in UDP / CheckUDP / WriteTo: "+strings.Join(pres, " vs "))
		}
	}
}

// reachableAfter: b is reachable from a (same function).
func reachableAfter(a, b ssa.Instruction) bool {
	for _, in := range reachFrom(a.Parent(), a, nil, nil) {
		if in == b {
			return true
		}
	}
	return false
}

type delegInfo struct {
	call            ssa.CallInstruction
	pre             string // static calls dominating the delegation, with constant args
	dargs           string // shape of the arguments handed to the next stage
	target          string // access path / producing call of the delegate receiver
	returnsDelegate bool
	addrShape       string // how the *AddrEx argument is built
}

// delegation finds the invoke of `method` on a value of interface type iface
// inside fn and summarises what happens before it.
func delegation(fn *ssa.Function, method string, iface *types.Named) delegInfo {
	var d delegInfo
	allInstrs(fn, func(in ssa.Instruction) {
		ci, ok := in.(ssa.CallInstruction)
		if !ok || !invokeIs(ci, method) {
			return
		}
		if iface != nil && !types.Identical(ci.Common().Value.Type(), iface) {
			return
		}
		d.call = ci
	})
	if d.call == nil {
		return d
	}
	var pre []string
	allInstrs(fn, func(in ssa.Instruction) {
		call, ok := in.(*ssa.Call)
		if !ok || in == d.call.(ssa.Instruction) || !dominates(call, d.call) {
			return
		}
		f := staticCallee(call)
		if f == nil {
			return
		}
		s := f.String() + "("
		for i, a := range call.Call.Args {
			if i > 0 {
				s += ","
			}
			s += argShape(fn, a)
		}
		pre = append(pre, s+")")
	})
	// the delegation passes on the method's own request (same parameter), not a copy
	dargs := "delegate("
	for i, a := range d.call.Common().Args {
		if i > 0 {
			dargs += ","
		}
		dargs += argShape(fn, a)
	}
	d.dargs = dargs + ")"
	d.pre = strings.Join(pre, ";")
	recv := d.call.Common().Value
	if call, ok := resolve(recv).(*ssa.Call); ok {
		if f := staticCallee(call); f != nil {
			d.target = "result of " + f.String()
		}
	} else {
		d.target = "field " + accessPath(recv).FieldNames()
	}
	// every non-error-shortcut return hands back the delegate's result
	d.returnsDelegate = true
	val := d.call.Value()
	allInstrs(fn, func(in ssa.Instruction) {
		r, ok := in.(*ssa.Return)
		if !ok {
			return
		}
		res := retResults(r)
		if len(res) == 0 {
			return
		}
		last := resolve(res[len(res)-1])
		if val != nil && (last == ssa.Value(val) || dependsOn(last, val, depOpts{})) {
			return
		}
		if !reachableAfter(d.call, r) {
			// a return that bypasses the delegate: acceptable only as an
			// error shortcut, never as an unconditional nil (allow)
			nilEdge := isNilConst(last)
			if ph, ok := last.(*ssa.Phi); ok {
				for _, e := range ph.Edges {
					if isNilConst(e) {
						nilEdge = true
					}
				}
			}
			if !nilEdge {
				return
			}
		}
		d.returnsDelegate = false
	})
	// address argument shape: which fields of the literal are set and from what
	if n := len(d.call.Common().Args); n > 0 {
		a := d.call.Common().Args[n-1]
		if al, ok := resolve(a).(*ssa.Alloc); ok {
			var parts []string
			for _, ref := range *al.Referrers() {
				if fa, ok := ref.(*ssa.FieldAddr); ok {
					for _, r2 := range *fa.Referrers() {
						if st, ok := r2.(*ssa.Store); ok {
							src := "?"
							if tup, idx := tupleSource(st.Val); tup != nil {
								if call, ok := tup.(*ssa.Call); ok && staticCallee(call) != nil {
									src = fmt.Sprintf("%s#%d", staticCallee(call).String(), idx)
								}
							}
							parts = append(parts, structField(fa.X.Type(), fa.Field).Name()+"="+src)
						}
					}
				}
			}
			d.addrShape = strings.Join(parts, ",")
		}
	}
	return d
}

var paramTok = regexp.MustCompile(`\bp\d+\b`)

// argShape: how an argument relates to the enclosing method: one of its own
// parameters (p<i>), a constant, or something computed (·).
func argShape(fn *ssa.Function, a ssa.Value) string {
	r := resolve(a)
	for i, prm := range fn.Params {
		if r == ssa.Value(prm) {
			return fmt.Sprintf("p%d", i)
		}
	}
	if k := constOf(a); k != nil && k.Value != nil {
		return k.Value.ExactString()
	}
	return "·"
}

// alwaysErrors: every return's last result is a non-nil error value.
func alwaysErrors(fn *ssa.Function) bool {
	n := 0
	ok := true
	allInstrs(fn, func(in ssa.Instruction) {
		r, isRet := in.(*ssa.Return)
		if !isRet {
			return
		}
		res := retResults(r)
		if len(res) == 0 {
			return
		}
		n++
		last := resolve(res[len(res)-1])
		switch x := last.(type) {
		case *ssa.Const:
			ok = false
		case *ssa.UnOp:
			// load of a package-level error variable
			if _, isGlobal := x.X.(*ssa.Global); !isGlobal {
				ok = false
			}
		case *ssa.Call:
			f := staticCallee(x)
			if f == nil || !(f.Name() == "New" || f.Name() == "Errorf") {
				ok = false
			}
		case *ssa.MakeInterface:
		default:
			ok = false
		}
	})
	return ok && n > 0
}

// c08AddrHelper decides the checked-source rule for a destination produced by
// a helper `func (e) h(...) (string, error)` called at hc, whose address result
// feeds the WriteTo at use. decided=false when the helper has another shape.
func c08AddrHelper(p *Prog, h *ssa.Function, hc *ssa.Call, use ssa.Instruction, fOverride *types.Var, checkAddr *ssa.Function) (good, decided bool) {
	res := h.Signature.Results()
	if res.Len() != 2 || !types.Identical(res.At(1).Type(), types.Universe.Lookup("error").Type()) {
		return false, false
	}
	errv := extractOf(hc, 1)
	if errv == nil {
		return false, true // error discarded
	}
	// the use sits behind err == nil
	if !guardedBy(use, func(cond ssa.Value, pol bool) bool {
		x, isNil, ok := nilTest(cond, pol)
		return ok && isNil && resolve(x) == errv
	}) {
		return false, true
	}
	good = true
	n := 0
	allInstrs(h, func(in ssa.Instruction) {
		r, ok := in.(*ssa.Return)
		if !ok {
			return
		}
		rr := retResults(r)
		if rr == nil || len(rr) != 2 {
			return
		}
		if !isNilConst(rr[1]) {
			// error return; a φ / variable error is not modelled
			if _, isC := rr[1].(*ssa.Const); !isC {
				if _, isMI := rr[1].(*ssa.MakeInterface); !isMI {
					if _, isCall := resolve(rr[1]).(*ssa.Call); !isCall {
						if _, isEx := resolve(rr[1]).(*ssa.Extract); !isEx {
							good = false
						}
					}
				}
			}
			// returned together with an error the caller tests: the address is not used
			nonNil := guardedBy(r, func(cond ssa.Value, pol bool) bool {
				x, isNil, ok := nilTest(cond, pol)
				return ok && !isNil && resolve(x) == resolve(rr[1])
			})
			if _, isMI := rr[1].(*ssa.MakeInterface); !isMI && !nonNil {
				good = false
			}
			return
		}
		n++
		v := rr[0]
		if isLoadOfField(v, fOverride) {
			if !guardedBy(r, func(cond ssa.Value, pol bool) bool {
				x, nonEmpty, ok := strEmptyTest(cond, pol)
				return ok && nonEmpty && isLoadOfField(x, fOverride)
			}) {
				good = false
			}
			return
		}
		if !guardedBy(r, func(cond ssa.Value, pol bool) bool {
			x, isNil, ok := nilTest(cond, pol)
			if !ok || !isNil {
				return false
			}
			call, ok := resolve(x).(*ssa.Call)
			if !ok || staticCallee(call) != checkAddr {
				return false
			}
			return sameValue(call.Call.Args[1], v)
		}) {
			good = false
		}
	})
	if n == 0 {
		return false, false
	}
	return good, true
}

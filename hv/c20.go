package main

import (
	"fmt"
	"go/constant"
	"go/token"
	"go/types"
	"sort"
	"strings"

	"golang.org/x/tools/go/ssa"
)

// Body-less leaves reached by R2 under the thorough tier's other build
// configurations (maywrite.go's table lists the amd64 kernels only): the SHA-256
// block functions write their digest state (argument 0) and only read the data.
func init() {
	for name, spec := range map[string]leafSpec{
		"crypto/internal/fips140/sha256.blockSHA2": {[]int{0}, -1}, // arm64
		"crypto/internal/fips140/sha256.block":     {[]int{0}, -1}, // 386, loong64, riscv64 (sha256block_asm.go)
	} {
		if _, ok := mwLeafTable[name]; !ok {
			mwLeafTable[name] = spec
		}
	}
}

func init() {
	register(&propDef{
		ID:        "C20",
		Run:       checkC20,
		AllDeps:   true, // R2 follows the datagram into pion/stun, encoding/binary and crypto/sha256
		Technique: "static analysis: edge-guard reachability on the reader loop and on every predicate down to the two base decoders, interprocedural may-write (taint) analysis of the read buffer through repo, pion/stun and stdlib SSA bodies, lockset + map-operation census of the attempt registry, constant length-window and operand-provenance checks of the punch decoder (go/ssa)",
		Explanation: "R1 in PunchPacketConn.ReadFrom the inner ReadFrom fills the caller's buffer, every predicate is applied to exactly p[:n], the read call can be reached again only over the true-edge of a predicate result, every return after the read hands back the inner n and addr, every predicate (recursively, through extracted helpers) reports true only behind the err==nil edge of DecodePunchPacket / of the STUN parser applied to that same packet, and no channel send reachable from the reader can block; " +
			"R2 no instruction reachable from the predicates stores into the backing array of p (may-write analysis through DecodePunchPacket, pion/stun.Decode/IsMessage and sha256; summaries only for assembly kernels), and ReadFrom itself never writes or leaks p; " +
			"R3 the registry is the map RemovePunchAttempt deletes its id from (on every path, under the write lock); AddPunchAttempt stores meta under id under the write lock; every access of the map is under the mutex in the right mode and the map value never escapes (no snapshot); the metadata given to DecodePunchPacket by the reader is the value of a live range/lookup over that map, iterated under the lock; " +
			"R4 every success return of DecodePunchPacket lies behind: len(packet) >= salt+header and len(packet) <= salt+header+MaxPunchPadding (salt = the split handed to the mask function, header = the furthest constant payload offset the decoder reads / the encoder writes), the un-XOR call (payload = packet[salt:], salt = packet[:salt], key derived from meta.Obfs, mask mixing key and salt), the magic equality against the package's magic array, a type test that holds only for declared PunchPacketType constants, and an equality between payload bytes and the unsliced nonce derived from meta.Nonce; the encoder masks with the same function and the same salt split; " +
			"R5 every successful AddPunchAttempt is followed on all paths by RemovePunchAttempt of the same id (deferred or explicit, directly or through the helper pair), and the puncher's routing map is accessed under its mutex only; " +
			"R6 the STUN parser succeeds only behind stun.Decode(packet, m)==nil and m.Type==stun.BindingSuccess (or the field-wise Method==MethodBinding && Class==ClassSuccessResponse).",
		NotDecided: []string{
			"'decodes only under exactly the metadata that encoded it' over all byte strings (collision freeness of SHA-256/XOR and of the 16-byte nonce is cryptographic)",
			"concurrent registration/removal vs. an in-flight read beyond lock discipline (a packet being decoded while its attempt is removed)",
			"encoder/decoder agreement on header layout and padding bound beyond the shared mask function and salt split (covered by the round-trip unit tests)",
			"rollback of the puncher's routing entry when AddPunchAttempt fails and routing of events by AttemptID (not needed for what reaches QUIC)",
			"that a STUN binding response carries a mapped address (stricter than the property)",
			"behaviour of pion/stun's attribute parser beyond 'does not write the datagram'",
		},
		Assumptions: []string{
			"assembly kernels write only the arguments listed in the may-write leaf table (hv/maywrite.go)",
			"the wrapped PacketConn fills p[:n] and returns n (net.PacketConn contract)",
			"package-level error variables, fmt.Errorf and errors.New results are non-nil (used to tell failure returns from success returns)",
		},
	})
}

// ---------------------------------------------------------------------------
// small helpers (all prefixed c20)

type c20agg struct {
	ok     bool
	rule   string
	pos    string
	detail string
}

type c20ctx struct {
	c  *Check
	p  *Prog
	la *LockAnalysis

	aggs  map[string]*c20agg
	order []string

	decodeFn  *ssa.Function         // DecodePunchPacket
	stunFns   map[*ssa.Function]int // STUN parsers (call pion Decode on their packet parameter) -> packet param index
	verified  map[string]bool       // predicate verification memo
	baseSites []*ssa.Call           // DecodePunchPacket call sites that justify a diversion
	punchSite map[*ssa.Call]bool
	stunSite  map[*ssa.Call]bool

	originMemo map[string]*c20orig

	fNonce, fObfs *types.Var
	helperMemo    map[string]bool // c20helperCall results
}

// agg records a (possibly repeated) obligation; instances sharing a key are and-ed.
func (x *c20ctx) agg(ok bool, key, rule, pos, detail string) bool {
	a := x.aggs[key]
	if a == nil {
		a = &c20agg{ok: true, rule: rule, pos: pos}
		x.aggs[key] = a
		x.order = append(x.order, key)
	}
	if !ok && a.ok {
		a.ok = false
		a.pos = pos
		a.detail = detail
	}
	return ok
}

func (x *c20ctx) flush() {
	for _, k := range x.order {
		a := x.aggs[k]
		x.c.Req(a.ok, k, a.rule, a.pos, a.detail)
	}
}

func c20isByteSlice(t types.Type) bool {
	sl, ok := t.Underlying().(*types.Slice)
	if !ok {
		return false
	}
	b, ok := sl.Elem().Underlying().(*types.Basic)
	return ok && b.Kind() == types.Byte
}

func c20isError(t types.Type) bool {
	return types.Identical(t, types.Universe.Lookup("error").Type())
}

func c20isBool(t types.Type) bool {
	b, ok := t.Underlying().(*types.Basic)
	return ok && b.Kind() == types.Bool
}

// c20sliceOf: v is root or a (re)slice of it.
func c20sliceOf(v, root ssa.Value) bool {
	for i := 0; i < 16; i++ {
		v = resolve(v)
		if v == root {
			return true
		}
		s, ok := v.(*ssa.Slice)
		if !ok {
			return false
		}
		v = s.X
	}
	return false
}

// c20sliceChain describes v as root[lo:hi] with constant cumulative bounds
// (hi == -1: open ended).  ok is false when a bound is not constant.
func c20sliceChain(v ssa.Value) (root ssa.Value, lo, hi int64, ok bool) {
	return c20sliceChainTo(v, nil)
}

// c20sliceChainTo is c20sliceChain that stops at `stop` (bounds are then
// relative to stop).
func c20sliceChainTo(v, stop ssa.Value) (root ssa.Value, lo, hi int64, ok bool) {
	v = resolve(v)
	s, isSlice := v.(*ssa.Slice)
	if !isSlice || (stop != nil && v == stop) {
		return v, 0, -1, true
	}
	root, plo, phi, ok := c20sliceChainTo(s.X, stop)
	if !ok {
		return root, 0, -1, false
	}
	var l int64
	h := int64(-1)
	if s.Low != nil {
		k, isC := constInt(s.Low)
		if !isC {
			return root, 0, -1, false
		}
		l = k
	}
	if s.High != nil {
		k, isC := constInt(s.High)
		if !isC {
			return root, 0, -1, false
		}
		h = k
	}
	lo = plo + l
	if h >= 0 {
		hi = plo + h
	} else {
		hi = phi
	}
	return root, lo, hi, true
}

// c20unwrapCopy looks through a fresh copy: append(nil, x...), bytes.Clone(x),
// slices.Clone(x), make+copy(dst, x).
func c20unwrapCopy(v ssa.Value) ssa.Value {
	v = resolve(v)
	switch t := v.(type) {
	case *ssa.Call:
		if isBuiltinCall(t, "append") && len(t.Call.Args) == 2 {
			a0 := resolve(t.Call.Args[0])
			if isNilConst(a0) {
				return t.Call.Args[1]
			}
			if s, ok := a0.(*ssa.Slice); ok && s.Max != nil && isConstInt(s.Max, 0) {
				return t.Call.Args[1]
			}
		}
		if f := staticCallee(t); f != nil && f.Name() == "Clone" && len(t.Call.Args) == 1 {
			if pk := fnPkg(f); pk != nil && (pk.Pkg.Path() == "bytes" || pk.Pkg.Path() == "slices") {
				return t.Call.Args[0]
			}
		}
	case *ssa.MakeSlice:
		var src ssa.Value
		n := 0
		allInstrs(t.Parent(), func(in ssa.Instruction) {
			if call, ok := in.(*ssa.Call); ok && isBuiltinCall(call, "copy") && c20sliceOf(call.Call.Args[0], t) {
				src = call.Call.Args[1]
				n++
			}
		})
		if n == 1 {
			return src
		}
	}
	return v
}

// c20callResult: v is result #idx of a call (idx -1 for single-result calls).
func c20callResult(v ssa.Value) (*ssa.Call, int) {
	v = resolve(v)
	if e, ok := v.(*ssa.Extract); ok {
		if call, ok := e.Tuple.(*ssa.Call); ok {
			return call, e.Index
		}
		return nil, -1
	}
	if call, ok := v.(*ssa.Call); ok {
		return call, -1
	}
	return nil, -1
}

// c20resultIdx returns the index of the single result of fn satisfying pred (-1 if none / ambiguous).
func c20resultIdx(fn *ssa.Function, pred func(types.Type) bool) int {
	res := fn.Signature.Results()
	idx := -1
	for i := 0; i < res.Len(); i++ {
		if pred(res.At(i).Type()) {
			if idx >= 0 {
				return -1
			}
			idx = i
		}
	}
	return idx
}

// c20liftPhi extends an edge predicate to branch conditions that are φ-nodes of
// short-circuit expressions evaluated as values (`switch { case a && b: }`,
// `ok := a || b; if ok`): the edge (φ, pol) establishes the fact when every
// incoming value that can make φ == pol either establishes it itself or
// arrives over a CFG edge that is already guarded.
func c20liftPhi(pred EdgePred) EdgePred {
	depth := 0
	var lifted EdgePred
	lifted = func(cond ssa.Value, pol bool) bool {
		if pred(cond, pol) {
			return true
		}
		ph, ok := cond.(*ssa.Phi)
		if !ok || depth > 3 {
			return false
		}
		depth++
		defer func() { depth-- }()
		for i, e := range ph.Edges {
			if isConstBool(e, !pol) {
				continue // this incoming value cannot produce φ == pol
			}
			if ev, epol := stripNot(e, pol); lifted(ev, epol) {
				continue
			}
			if cfgEdgeGuardedBy(ph.Block().Preds[i], ph.Block(), lifted) {
				continue
			}
			return false
		}
		return true
	}
	return lifted
}

func c20srcGuarded(from, to *ssa.BasicBlock, pred EdgePred) bool {
	return srcGuarded(from, to, c20liftPhi(pred))
}

// c20src is one possible source of a returned value.
type c20src struct {
	ret  *ssa.Return
	v    ssa.Value
	from *ssa.BasicBlock
	to   *ssa.BasicBlock // nil: v is used in `from` itself
}

func c20expand(v ssa.Value, from, to *ssa.BasicBlock, ret *ssa.Return, depth int, out *[]c20src) {
	if ph, ok := v.(*ssa.Phi); ok && depth < 4 {
		for i, e := range ph.Edges {
			c20expand(e, ph.Block().Preds[i], ph.Block(), ret, depth+1, out)
		}
		return
	}
	*out = append(*out, c20src{ret, v, from, to})
}

// c20succSources lists the sources of result #idx of fn that may denote success
// (bool: not provably false; error: not provably non-nil).
func c20succSources(fn *ssa.Function, idx int, isErr bool) []c20src {
	var all []c20src
	allInstrs(fn, func(in ssa.Instruction) {
		r, ok := in.(*ssa.Return)
		if !ok {
			return
		}
		res := retResults(r)
		if res == nil || idx >= len(res) {
			return
		}
		c20expand(res[idx], r.Block(), nil, r, 0, &all)
	})
	var out []c20src
	for _, s := range all {
		v := resolve(s.v)
		if isErr {
			if isNilConst(v) {
				out = append(out, s)
				continue
			}
			switch t := v.(type) {
			case *ssa.MakeInterface:
				continue
			case *ssa.Call:
				if f := staticCallee(t); f != nil && !isRepoPath(c20pkgPath(f)) && (f.Name() == "Errorf" || f.Name() == "New") {
					continue
				}
			case *ssa.UnOp:
				if _, isG := t.X.(*ssa.Global); isG && t.Op == token.MUL {
					continue
				}
			}
			nonNil := func(cond ssa.Value, pol bool) bool {
				y, isNil, ok := nilTest(cond, pol)
				return ok && !isNil && resolve(y) == v
			}
			if c20srcGuarded(s.from, s.to, nonNil) {
				continue
			}
			out = append(out, s)
		} else {
			if isConstBool(v, false) {
				continue
			}
			isFalse := func(cond ssa.Value, pol bool) bool { return !pol && resolve(cond) == v }
			if !isConstBool(v, true) && c20srcGuarded(s.from, s.to, isFalse) {
				continue
			}
			out = append(out, s)
		}
	}
	return out
}

func c20pkgPath(f *ssa.Function) string {
	if pk := fnPkg(f); pk != nil {
		return pk.Pkg.Path()
	}
	return ""
}

// c20lenBound: what the edge (cond, pol) establishes about len(pkt).
func c20lenBound(cond ssa.Value, pol bool, fr *c20frame) (lo, hi int64, hasLo, hasHi bool) {
	b, ok := cond.(*ssa.BinOp)
	if !ok {
		return
	}
	op := b.Op
	var k int64
	dx, isLenX := fr.lenDelta(b.X)
	dy, isLenY := fr.lenDelta(b.Y)
	switch {
	case isLenX:
		c, isC := constInt(b.Y)
		if !isC {
			return
		}
		k = c + dx
	case isLenY:
		c, isC := constInt(b.X)
		if !isC {
			return
		}
		k = c + dy
		switch op { // const OP len  ==  len OP' const
		case token.LSS:
			op = token.GTR
		case token.GTR:
			op = token.LSS
		case token.LEQ:
			op = token.GEQ
		case token.GEQ:
			op = token.LEQ
		}
	default:
		return
	}
	if !pol {
		switch op {
		case token.LSS:
			op = token.GEQ
		case token.LEQ:
			op = token.GTR
		case token.GTR:
			op = token.LEQ
		case token.GEQ:
			op = token.LSS
		case token.EQL:
			op = token.NEQ
		case token.NEQ:
			op = token.EQL
		}
	}
	switch op {
	case token.GEQ:
		return k, 0, true, false
	case token.GTR:
		return k + 1, 0, true, false
	case token.LEQ:
		return 0, k, false, true
	case token.LSS:
		return 0, k - 1, false, true
	case token.EQL:
		return k, k, true, true
	}
	return
}

// ---------------------------------------------------------------------------
// interprocedural origins (K9): which struct fields and which parameters of the
// top-level function a value is computed from.  Repository callees are
// followed through their return values; other calls pass all arguments on.

type c20orig struct {
	fields map[*types.Var]bool
	params map[int]bool
}

func (x *c20ctx) origins(v ssa.Value) *c20orig {
	o := &c20orig{fields: map[*types.Var]bool{}, params: map[int]bool{}}
	x.originsInto(v, o, map[ssa.Value]bool{}, 0)
	return o
}

func (x *c20ctx) calleeOrigins(fn *ssa.Function, idx int, depth int) *c20orig {
	key := fmt.Sprintf("%s#%d", fn.String(), idx)
	if o, ok := x.originMemo[key]; ok {
		return o
	}
	o := &c20orig{fields: map[*types.Var]bool{}, params: map[int]bool{}}
	x.originMemo[key] = o // recursion guard
	allInstrs(fn, func(in ssa.Instruction) {
		r, ok := in.(*ssa.Return)
		if !ok {
			return
		}
		res := retResults(r)
		if res == nil {
			return
		}
		if idx < 0 {
			idx = 0
		}
		if idx < len(res) {
			x.originsInto(res[idx], o, map[ssa.Value]bool{}, depth+1)
		}
	})
	return o
}

func (x *c20ctx) originsInto(v ssa.Value, o *c20orig, seen map[ssa.Value]bool, depth int) {
	if v == nil || seen[v] {
		return
	}
	seen[v] = true
	switch t := v.(type) {
	case *ssa.Parameter:
		for i, prm := range t.Parent().Params {
			if prm == t {
				o.params[i] = true
			}
		}
		return
	case *ssa.Const, *ssa.Global, *ssa.Function, *ssa.Builtin, *ssa.FreeVar:
		return
	case *ssa.Extract:
		if call, ok := t.Tuple.(*ssa.Call); ok {
			x.callOrigins(call, t.Index, o, seen, depth)
			return
		}
		x.originsInto(t.Tuple, o, seen, depth)
		return
	case *ssa.Call:
		x.callOrigins(t, -1, o, seen, depth)
		return
	case *ssa.FieldAddr:
		if f := structField(t.X.Type(), t.Field); f != nil {
			o.fields[f] = true
		}
		x.originsInto(t.X, o, seen, depth)
		return
	case *ssa.Field:
		if f := structField(t.X.Type(), t.Field); f != nil {
			o.fields[f] = true
		}
		x.originsInto(t.X, o, seen, depth)
		return
	case *ssa.Alloc:
		for _, r := range *t.Referrers() {
			if st, ok := r.(*ssa.Store); ok && st.Addr == ssa.Value(t) {
				x.originsInto(st.Val, o, seen, depth)
			}
		}
		return
	}
	if in, ok := v.(ssa.Instruction); ok {
		for _, op := range in.Operands(nil) {
			if *op != nil {
				x.originsInto(*op, o, seen, depth)
			}
		}
	}
}

func (x *c20ctx) callOrigins(call *ssa.Call, idx int, o *c20orig, seen map[ssa.Value]bool, depth int) {
	f := staticCallee(call)
	if f != nil && len(f.Blocks) > 0 && x.p.IsRepoFn(f) && depth < 5 {
		co := x.calleeOrigins(f, idx, depth)
		for fld := range co.fields {
			o.fields[fld] = true
		}
		for pi := range co.params {
			if pi < len(call.Call.Args) {
				x.originsInto(call.Call.Args[pi], o, seen, depth)
			}
		}
		return
	}
	for _, a := range call.Call.Args {
		x.originsInto(a, o, seen, depth)
	}
	if call.Call.IsInvoke() {
		x.originsInto(call.Call.Value, o, seen, depth)
	}
}

// c20depsWithEffects: backward slice of v inside its function where a call
// that receives an object of the slice (hash state, buffer) also feeds its
// other arguments into the slice.
func c20depsWithEffects(fn *ssa.Function, v ssa.Value) map[ssa.Value]bool {
	set := deps(v, depOpts{throughCalls: true})
	for changed := true; changed; {
		changed = false
		allInstrs(fn, func(in ssa.Instruction) {
			ci, ok := in.(ssa.CallInstruction)
			if !ok {
				return
			}
			cc := ci.Common()
			if _, isB := cc.Value.(*ssa.Builtin); isB {
				return
			}
			touches := false
			if cc.IsInvoke() && set[cc.Value] {
				touches = true
			}
			for _, a := range cc.Args {
				if set[a] && pointerLike(a.Type()) && !c20isByteSlice(a.Type()) {
					touches = true
				}
			}
			if !touches {
				return
			}
			for _, a := range cc.Args {
				for d := range deps(a, depOpts{throughCalls: true}) {
					if !set[d] {
						set[d] = true
						changed = true
					}
				}
			}
		})
	}
	return set
}

// ---------------------------------------------------------------------------

func checkC20(c *Check) {
	lockBalanceRule(c, "C20", pRealm)
	p := c.P
	x := &c20ctx{c: c, p: p, la: p.Locks(), aggs: map[string]*c20agg{}, stunFns: map[*ssa.Function]int{}, verified: map[string]bool{}, punchSite: map[*ssa.Call]bool{}, stunSite: map[*ssa.Call]bool{}, originMemo: map[string]*c20orig{}, helperMemo: map[string]bool{}}
	defer x.flush()

	connT := p.Named(pRealm, "PunchPacketConn")
	readFrom := p.Fn(pRealm, "(*PunchPacketConn).ReadFrom")
	addFn := p.Fn(pRealm, "(*PunchPacketConn).AddPunchAttempt")
	removeFn := p.Fn(pRealm, "(*PunchPacketConn).RemovePunchAttempt")
	x.decodeFn = p.Fn(pRealm, "DecodePunchPacket")
	encodeFn := p.Fn(pRealm, "EncodePunchPacket")
	metaT := p.Named(pRealm, "PunchMetadata")
	fNonce := p.Field(pRealm, "PunchMetadata", "Nonce")
	fObfs := p.Field(pRealm, "PunchMetadata", "Obfs")
	maxPad := p.Const(pRealm, "MaxPunchPadding")
	if connT == nil || readFrom == nil || len(readFrom.Blocks) == 0 || addFn == nil || removeFn == nil || x.decodeFn == nil || encodeFn == nil || metaT == nil || fNonce == nil || fObfs == nil || maxPad == nil {
		c.Unres("realm.PunchPacketConn.{ReadFrom,AddPunchAttempt,RemovePunchAttempt}, DecodePunchPacket, EncodePunchPacket, PunchMetadata.{Nonce,Obfs}, MaxPunchPadding")
		return
	}
	var realmFns []*ssa.Function
	for _, fn := range p.RepoFns {
		if c20pkgPath(fn) == pRealm {
			realmFns = append(realmFns, fn)
		}
	}
	// STUN parsers: repository functions handing their []byte parameter to pion/stun's Decode
	var stunPkg string
	for _, fn := range realmFns {
		for _, ci := range callsIn(fn, func(ci ssa.CallInstruction) bool {
			f := staticCallee(ci)
			return f != nil && f.Name() == "Decode" && f.Signature.Recv() == nil && strings.HasPrefix(c20pkgPath(f), "github.com/pion/stun")
		}) {
			for i, prm := range fn.Params {
				if c20isByteSlice(prm.Type()) && len(ci.Common().Args) > 0 && resolve(ci.Common().Args[0]) == ssa.Value(prm) {
					x.stunFns[fn] = i
					stunPkg = c20pkgPath(staticCallee(ci))
				}
			}
		}
	}
	if len(x.stunFns) == 0 {
		c.Unres("the realm function applying pion/stun.Decode to its packet parameter")
		return
	}

	x.ruleReader(readFrom)
	x.ruleRegistry(connT, addFn, removeFn)
	x.ruleDecoder(encodeFn, fNonce, fObfs, maxPad)
	x.ruleLifecycle(addFn, removeFn)
	x.ruleSTUN(stunPkg)
}

// ---------------------------------------------------------------------------
// R1 + R2: the reader loop

const (
	c20r1 = "C20.R1 a packet is withheld from the caller of PunchPacketConn.ReadFrom only over the true-edge of a predicate that holds only behind a successful DecodePunchPacket / STUN binding-response parse of exactly p[:n]; everything else is returned with the inner n and addr; diversion never blocks the reader"
	c20r2 = "C20.R2 nothing reachable from the predicates (nor ReadFrom itself) stores into the backing array of the caller's buffer p"
	c20r3 = "C20.R3 the attempt registry is one map accessed only under its mutex (writes under the write lock), RemovePunchAttempt deletes the id, AddPunchAttempt stores meta under id, no snapshot of the map escapes, and the reader decodes with the metadata of a live iteration/lookup of that map"
	c20r4 = "C20.R4 every success return of DecodePunchPacket is behind the length window, the un-XOR of packet[salt:] under (meta.Obfs key, packet[:salt]), the magic equality, a type test true only for declared packet types, and the equality of payload bytes with the full nonce from meta.Nonce"
	c20r5 = "C20.R5 every successful AddPunchAttempt is followed on all paths by RemovePunchAttempt of the same id; the puncher's routing map is accessed only under its mutex"
	c20r6 = "C20.R6 the STUN parser succeeds only behind stun.Decode(packet, m) == nil and m.Type == stun.BindingSuccess"
)

func (x *c20ctx) ruleReader(rf *ssa.Function) {
	c, p := x.c, x.p
	c.Saw(fnName(rf))
	var pbuf *ssa.Parameter
	for _, prm := range rf.Params[1:] {
		if c20isByteSlice(prm.Type()) {
			pbuf = prm
		}
	}
	if pbuf == nil {
		c.Unres("[]byte parameter of " + fnName(rf))
		return
	}
	// the inner read
	var readCall *ssa.Call
	nRead := 0
	for _, ci := range callsIn(rf, func(ci ssa.CallInstruction) bool { return invokeIs(ci, "ReadFrom") }) {
		call, ok := ci.(*ssa.Call)
		if !ok {
			continue
		}
		ap := accessPath(call.Call.Value)
		if len(ap.Fields) != 1 || ap.Root != ssa.Value(rf.Params[0]) {
			continue
		}
		nRead++
		readCall = call
		x.agg(len(call.Call.Args) == 1 && resolve(call.Call.Args[0]) == ssa.Value(pbuf), "C20.R1:inner-read-into-p", c20r1, p.InstrPos(call), "the wrapped ReadFrom does not read into the caller's buffer p (the pass-through packet would have to be copied)")
	}
	c.Floor("C20.R1:inner-read", nRead, 1)
	if nRead != 1 {
		if nRead > 1 {
			c.Undecided("C20.R1:inner-read:single", c20r1, p.Pos(rf.Pos()), "more than one inner ReadFrom call; the loop analysis expects one")
		}
		return
	}
	nVal, addrVal, errVal := extractOf(readCall, 0), extractOf(readCall, 1), extractOf(readCall, 2)

	// predicate calls: static repo callees receiving (a slice of) p
	type predCall struct {
		call   *ssa.Call
		fn     *ssa.Function
		pktIdx int
		resIdx int
	}
	var preds []predCall
	for _, ci := range callsIn(rf, func(ci ssa.CallInstruction) bool { return staticCallee(ci) != nil }) {
		call, ok := ci.(*ssa.Call)
		if !ok {
			continue
		}
		f := staticCallee(call)
		if !p.IsRepoFn(f) || len(f.Blocks) == 0 {
			continue // library helpers (stun.IsMessage, …) are not diversion predicates
		}
		for i, a := range call.Call.Args {
			if !c20isByteSlice(a.Type()) || !c20sliceOf(a, pbuf) {
				continue
			}
			ri := c20resultIdx(f, c20isBool)
			preds = append(preds, predCall{call, f, i, ri})
			// exactly the received bytes
			s, isS := resolve(a).(*ssa.Slice)
			exact := isS && resolve(s.X) == ssa.Value(pbuf) && (s.Low == nil || isConstInt(s.Low, 0)) && s.High != nil && nVal != nil && resolve(s.High) == nVal && s.Max == nil
			x.agg(exact, "C20.R1:predicate-sees-p[:n]:"+fnName(f), c20r1, p.InstrPos(call), "the predicate is not applied to exactly p[:n] of this read (stale bytes of an earlier datagram, or fewer bytes than received, decide the diversion)")
			break
		}
	}
	c.Floor("C20.R1:predicate-calls", len(preds), 1)

	// withhold edges
	withhold := func(cond ssa.Value, pol bool) bool {
		if !pol {
			return false
		}
		call, idx := c20callResult(cond)
		if call == nil {
			return false
		}
		for _, pc := range preds {
			if pc.call == call && pc.resIdx >= 0 && (idx == pc.resIdx || (idx == -1 && pc.fn.Signature.Results().Len() == 1)) {
				return true
			}
		}
		return false
	}
	again := false
	for _, in := range reachFrom(rf, readCall, nil, c20liftPhi(withhold)) {
		if in == ssa.Instruction(readCall) {
			again = true
		}
	}
	x.agg(!again, "C20.R1:withhold-only-on-predicate", c20r1, p.InstrPos(readCall), "the reader can loop back to the next read (dropping the packet just read) without crossing the true-edge of a punch/STUN predicate")
	c.Floor("C20.R1:withhold-edges", len(guardEdges(rf, c20liftPhi(withhold))), 1)

	// returns after the read hand back n and addr of the inner read
	nRet := 0
	for _, in := range reachFrom(rf, readCall, nil, nil) {
		r, ok := in.(*ssa.Return)
		if !ok {
			continue
		}
		res := retResults(r)
		if len(res) != 3 {
			continue
		}
		nRet++
		good := true
		var srcs []c20src
		c20expand(res[0], r.Block(), nil, r, 0, &srcs)
		for _, s := range srcs {
			if nVal == nil || resolve(s.v) != nVal {
				good = false
			}
		}
		srcs = nil
		c20expand(res[1], r.Block(), nil, r, 0, &srcs)
		for _, s := range srcs {
			if addrVal == nil || resolve(s.v) != addrVal {
				good = false
			}
		}
		srcs = nil
		c20expand(res[2], r.Block(), nil, r, 0, &srcs)
		for _, s := range srcs {
			if !isNilConst(resolve(s.v)) && (errVal == nil || resolve(s.v) != errVal) {
				good = false
			}
		}
		x.agg(good, "C20.R1:pass-through-returns-inner-n-addr", c20r1, p.InstrPos(r), "a return after the inner read does not hand back the inner read's n, addr (and nil / the inner error)")
	}
	c.Floor("C20.R1:returns", nRet, 1)

	// every predicate holds only behind a base decoder's success
	for _, pc := range preds {
		if pc.resIdx < 0 {
			x.agg(false, "C20.R1:divert-only-on-decode:"+fnName(pc.fn), c20r1, p.InstrPos(pc.call), "predicate has no single bool result")
			continue
		}
		x.verifyPredicate(pc.fn, pc.pktIdx, pc.resIdx, false)
	}
	c.Floor("C20.R1:punch-decode-edge", len(x.punchSite), 1)
	c.Floor("C20.R1:stun-parse-edge", len(x.stunSite), 1)

	// no blocking send reachable from the reader
	reach := map[*ssa.Function]bool{}
	var walk func(fn *ssa.Function)
	walk = func(fn *ssa.Function) {
		if reach[fn] || len(fn.Blocks) == 0 || c20pkgPath(fn) != pRealm {
			return
		}
		reach[fn] = true
		for _, ci := range callsIn(fn, func(ci ssa.CallInstruction) bool { return staticCallee(ci) != nil }) {
			if _, isGo := ci.(*ssa.Go); !isGo {
				walk(staticCallee(ci))
			}
		}
	}
	walk(rf)
	nSel := 0
	for fn := range reach {
		allInstrs(fn, func(in ssa.Instruction) {
			switch t := in.(type) {
			case *ssa.Send:
				nSel++
				x.agg(false, "C20.R1:emit-nonblocking:"+fnName(fn), c20r1, p.InstrPos(in), "a plain channel send is reachable from ReadFrom: once the event channel is full and nobody consumes it, every later QUIC packet is stuck behind it")
			case *ssa.Select:
				hasSend := false
				for _, st := range t.States {
					if st.Dir == types.SendOnly {
						hasSend = true
					}
				}
				if hasSend {
					nSel++
					x.agg(!t.Blocking, "C20.R1:emit-nonblocking:"+fnName(fn), c20r1, p.InstrPos(in), "a blocking select with a send case is reachable from ReadFrom (the reader stalls when events are not consumed)")
				}
			}
		})
	}
	c.Floor("C20.R1:emit-sends", nSel, 1) // how many emit helpers there are is not part of the property

	// ---- R2
	derived := map[ssa.Value]bool{pbuf: true}
	for changed := true; changed; {
		changed = false
		allInstrs(rf, func(in ssa.Instruction) {
			v, ok := in.(ssa.Value)
			if !ok || derived[v] {
				return
			}
			switch t := in.(type) {
			case *ssa.Slice:
				if derived[t.X] {
					derived[v] = true
					changed = true
				}
			case *ssa.Phi:
				for _, e := range t.Edges {
					if derived[e] {
						derived[v] = true
						changed = true
					}
				}
			case *ssa.ChangeType:
				if derived[t.X] {
					derived[v] = true
					changed = true
				}
			}
		})
	}
	type mwJob struct {
		fn  *ssa.Function
		idx int
	}
	var jobs []mwJob
	seenJob := map[string]bool{}
	localOK := true
	allInstrs(rf, func(in ssa.Instruction) {
		uses := false
		for _, op := range in.Operands(nil) {
			if *op != nil && derived[*op] {
				uses = true
			}
		}
		if !uses || in == ssa.Instruction(readCall) {
			return
		}
		switch t := in.(type) {
		case *ssa.Slice, *ssa.Phi, *ssa.ChangeType, *ssa.DebugRef:
			return
		case *ssa.IndexAddr:
			for _, r := range *t.Referrers() {
				if st, ok := r.(*ssa.Store); ok && st.Addr == ssa.Value(t) {
					localOK = false
					x.agg(false, "C20.R2:reader-does-not-write-p", c20r2, p.InstrPos(st), "ReadFrom stores into p")
				}
			}
			return
		case *ssa.Call:
			if b, ok := t.Call.Value.(*ssa.Builtin); ok {
				switch b.Name() {
				case "len", "cap":
					return
				case "copy", "append", "clear":
					if derived[t.Call.Args[0]] {
						localOK = false
						x.agg(false, "C20.R2:reader-does-not-write-p", c20r2, p.InstrPos(t), b.Name()+" into p inside ReadFrom")
					}
					return
				}
			}
			if f := staticCallee(t); f != nil && len(f.Blocks) > 0 {
				for i, a := range t.Call.Args {
					if derived[a] {
						k := fmt.Sprintf("%s#%d", f.String(), i)
						if !seenJob[k] {
							seenJob[k] = true
							jobs = append(jobs, mwJob{f, i})
						}
					}
				}
				return
			}
		}
		localOK = false
		c.Undecided("C20.R2:reader-use-of-p:"+fmt.Sprintf("%T", in), c20r2, p.InstrPos(in), "p (or a slice of it) is used in ReadFrom in a way the census does not model (stored, sent, captured or passed to a dynamic call)")
	})
	if localOK {
		x.agg(true, "C20.R2:reader-does-not-write-p", c20r2, p.Pos(rf.Pos()), "")
	}
	for _, j := range jobs {
		mw := p.newMayWrite()
		sum := mw.Run(j.fn, map[int]mwIn{j.idx: {kind: tARR}})
		key := "C20.R2:no-write:" + fnName(j.fn)
		for _, w := range mw.TooWide {
			c.Undecided(key+":dynamic-call:"+w, c20r2, "-", "a dynamic call on a value derived from the datagram could not be narrowed to a small callee set")
		}
		var fns []string
		for f := range mw.Visited {
			fns = append(fns, f.String())
		}
		sort.Strings(fns)
		for _, f := range fns {
			c.Saw("maywrite:" + f)
		}
		if len(sum.writes) > 0 {
			for i, w := range sum.writes {
				if i >= 4 {
					break
				}
				c.Bad(fmt.Sprintf("%s:write:%s", key, w.Fn), c20r2, w.Pos, w.What+" via "+w.Chain+" (the packet handed to QUIC is no longer the packet received)")
			}
		} else {
			c.OK(key, c20r2, p.Pos(j.fn.Pos()))
		}
		var leaves []string
		for l := range sum.leaves {
			leaves = append(leaves, l)
		}
		sort.Strings(leaves)
		for _, l := range leaves {
			c.Undecided(key+":leaf:"+l, c20r2, "-", "body-less function receives (a value derived from) the datagram and has no entry in the may-write leaf table")
		}
		c.Notes = append(c.Notes, fmt.Sprintf("C20.R2 %s: may-write visited %d functions, %d write sites, %d unknown leaves", fnName(j.fn), len(mw.Visited), len(sum.writes), len(leaves)))
	}
	c.Floor("C20.R2:predicates-analysed", len(jobs), 1)
}

// verifyPredicate: result #resIdx of fn (bool, or error when isErr) denotes
// success only behind a base decoder's success on fn's packet parameter.
func (x *c20ctx) verifyPredicate(fn *ssa.Function, pktIdx, resIdx int, isErr bool) bool {
	key := fmt.Sprintf("%s#%d#%d", fn.String(), pktIdx, resIdx)
	if v, ok := x.verified[key]; ok {
		return v
	}
	x.verified[key] = true // recursion guard (optimistic)
	c, p := x.c, x.p
	c.Saw(fnName(fn))
	if pktIdx >= len(fn.Params) || len(fn.Blocks) == 0 {
		x.verified[key] = false
		return false
	}
	pkt := ssa.Value(fn.Params[pktIdx])
	// a nested call qualifies when it is applied to the same packet
	nested := func(call *ssa.Call, idx int, wantErr bool) bool {
		f := staticCallee(call)
		if f == nil || len(f.Blocks) == 0 || !p.IsRepoFn(f) {
			return false
		}
		ai := -1
		for i, a := range call.Call.Args {
			if c20isByteSlice(a.Type()) && resolve(a) == pkt {
				ai = i
			}
		}
		if ai < 0 {
			return false
		}
		var ri int
		if wantErr {
			ri = c20resultIdx(f, c20isError)
		} else {
			ri = c20resultIdx(f, c20isBool)
		}
		if ri < 0 || !(idx == ri || (idx == -1 && f.Signature.Results().Len() == 1)) {
			return false
		}
		if wantErr && f == x.decodeFn {
			if !x.punchSite[call] {
				x.punchSite[call] = true
				x.baseSites = append(x.baseSites, call)
			}
			return true
		}
		if wantErr {
			if pi, ok := x.stunFns[f]; ok && pi == ai {
				x.stunSite[call] = true
				return true
			}
		}
		return x.verifyPredicate(f, ai, ri, wantErr)
	}
	accepted := func(cond ssa.Value, pol bool) bool {
		if y, isNil, ok := nilTest(cond, pol); ok && isNil {
			if call, idx := c20callResult(y); call != nil && nested(call, idx, true) {
				return true
			}
		}
		if pol {
			if call, idx := c20callResult(cond); call != nil && nested(call, idx, false) {
				return true
			}
		}
		return false
	}
	good := true
	pos := p.Pos(fn.Pos())
	for _, s := range c20succSources(fn, resIdx, isErr) {
		v := resolve(s.v)
		// pass-through of a nested verdict
		if call, idx := c20callResult(v); call != nil && !isNilConst(v) && nested(call, idx, isErr) {
			continue
		}
		if !c20srcGuarded(s.from, s.to, accepted) {
			good = false
			pos = p.InstrPos(s.ret)
		}
	}
	x.verified[key] = good
	x.agg(good, "C20.R1:divert-only-on-decode:"+fnName(fn), c20r1, pos, "a path reports the packet as punch/STUN (and withholds it from QUIC) without crossing the err==nil edge of DecodePunchPacket / the STUN parser applied to this packet")
	return good
}

// ---------------------------------------------------------------------------
// R3: the registry

// c20structMutex returns the single sync.Mutex / sync.RWMutex field of a struct.
func c20structMutex(n *types.Named) *types.Var {
	st, ok := n.Underlying().(*types.Struct)
	if !ok {
		return nil
	}
	var mu *types.Var
	for i := 0; i < st.NumFields(); i++ {
		f := st.Field(i)
		if nn, ok := f.Type().(*types.Named); ok && nn.Obj().Pkg() != nil && nn.Obj().Pkg().Path() == "sync" && (nn.Obj().Name() == "Mutex" || nn.Obj().Name() == "RWMutex") {
			if mu != nil {
				return nil
			}
			mu = f
		}
	}
	return mu
}

// mapDiscipline: every access of the map field is under mu in the right mode
// and the map value is used only by map operations.  Returns the number of
// accesses outside constructors.
func (x *c20ctx) mapDiscipline(rule, pfx string, field, mu *types.Var) int {
	p := x.p
	n := 0
	for _, fr := range fieldRefs(p.RepoFns, field) {
		fresh := false
		if al, ok := accessPath(fr.Addr).Root.(*ssa.Alloc); ok && al.Parent() == fr.Fn {
			fresh = true // object under construction, not yet shared
		}
		fname := fnName(fr.Fn)
		switch fr.Kind {
		case "addr":
			x.agg(false, pfx+":no-alias:"+fname, rule, p.InstrPos(fr.Instr), "the address of the map field escapes")
		case "store":
			if fresh {
				continue
			}
			n++
			_, isMake := resolve(fr.Val).(*ssa.MakeMap)
			x.agg(isMake && x.la.Holds(fr.Instr, mu, lockW), pfx+":lock:store:"+fname, rule, p.InstrPos(fr.Instr), "the map field is replaced outside the write lock or by something other than a fresh map")
		case "load":
			if fresh {
				continue
			}
			n++
			x.c.Saw(fname)
			x.agg(x.la.Holds(fr.Instr, mu, lockR), pfx+":lock:load:"+fname, rule, p.InstrPos(fr.Instr), "the map field is read without holding "+mu.Name())
			for _, mo := range mapOpsOn(fr.Val) {
				switch mo.Kind {
				case "update", "delete":
					x.agg(x.la.Holds(mo.Instr, mu, lockW), pfx+":lock:"+mo.Kind+":"+fname, rule, p.InstrPos(mo.Instr), "map "+mo.Kind+" without the write lock (concurrent map access with the reader)")
				case "lookup", "len", "cmp":
					x.agg(x.la.Holds(mo.Instr, mu, lockR), pfx+":lock:"+mo.Kind+":"+fname, rule, p.InstrPos(mo.Instr), "map "+mo.Kind+" without holding "+mu.Name())
				case "range":
					ok := x.la.Holds(mo.Instr, mu, lockR)
					pos := p.InstrPos(mo.Instr)
					if rg, isR := mo.Instr.(*ssa.Range); isR {
						for _, r := range *rg.Referrers() {
							if nx, isN := r.(*ssa.Next); isN && !x.la.Holds(nx, mu, lockR) {
								ok = false
							}
						}
					}
					x.agg(ok, pfx+":lock:range:"+fname, rule, pos, "the map is iterated (partly) outside the lock: a concurrent Add/Remove races with the iteration and a removed attempt may still be matched")
				default:
					x.agg(false, pfx+":no-snapshot:"+fname, rule, p.InstrPos(mo.Instr), "the map value escapes the critical section (stored, passed on or returned): a second, possibly stale view of the registry")
				}
			}
		}
	}
	return n
}

func (x *c20ctx) ruleRegistry(connT *types.Named, addFn, removeFn *ssa.Function) {
	c, p := x.c, x.p
	c.Saw(fnName(addFn))
	c.Saw(fnName(removeFn))
	st, _ := connT.Underlying().(*types.Struct)
	mu := c20structMutex(connT)
	if st == nil || mu == nil {
		c.Unres("the mutex field of realm.PunchPacketConn")
		return
	}
	isOwnField := func(f *types.Var) bool {
		for i := 0; i < st.NumFields(); i++ {
			if st.Field(i) == f {
				return true
			}
		}
		return false
	}
	strParam := func(fn *ssa.Function) *ssa.Parameter {
		for _, prm := range fn.Params[1:] {
			if b, ok := prm.Type().Underlying().(*types.Basic); ok && b.Kind() == types.String {
				return prm
			}
		}
		return nil
	}
	// registry := map fields RemovePunchAttempt deletes its id from (directly, or
	// through a helper method that receives the id and deletes it on every path)
	idR := strParam(removeFn)
	registry := map[*types.Var]bool{}
	var delInstrs []ssa.Instruction
	directDeletes := func(fn *ssa.Function, id ssa.Value) (map[*types.Var]bool, []ssa.Instruction) {
		fields := map[*types.Var]bool{}
		var instrs []ssa.Instruction
		allInstrs(fn, func(in ssa.Instruction) {
			call, ok := in.(*ssa.Call)
			if !ok || !isBuiltinCall(call, "delete") || id == nil || resolve(call.Call.Args[1]) != id {
				return
			}
			ap := accessPath(call.Call.Args[0])
			if len(ap.Fields) == 1 && ap.Root == ssa.Value(fn.Params[0]) && isOwnField(ap.Fields[0]) {
				fields[ap.Fields[0]] = true
				instrs = append(instrs, in)
			}
		})
		return fields, instrs
	}
	if idR != nil {
		registry, delInstrs = directDeletes(removeFn, idR)
		if len(registry) == 0 {
			for _, ci := range callsIn(removeFn, func(ci ssa.CallInstruction) bool {
				f := staticCallee(ci)
				return f != nil && len(f.Blocks) > 0 && p.IsRepoFn(f) && f.Signature.Recv() != nil
			}) {
				call, ok := ci.(*ssa.Call)
				if !ok || resolve(call.Call.Args[0]) != ssa.Value(removeFn.Params[0]) {
					continue
				}
				g := staticCallee(call)
				for i, a := range call.Call.Args {
					if i == 0 || resolve(a) != ssa.Value(idR) {
						continue
					}
					flds, ins := directDeletes(g, g.Params[i])
					isD := func(in ssa.Instruction) bool {
						for _, d := range ins {
							if d == in {
								return true
							}
						}
						return false
					}
					if len(flds) > 0 && len(exitsReachableAvoiding(g, nil, isD)) == 0 {
						c.Saw(fnName(g))
						for f := range flds {
							registry[f] = true
						}
						delInstrs = append(delInstrs, call)
					}
				}
			}
		}
	}
	if !x.agg(len(registry) > 0, "C20.R3:remove-deletes-id", c20r3, p.Pos(removeFn.Pos()), "RemovePunchAttempt does not delete its id from a map of the conn (a removed attempt keeps diverting packets)") {
		return
	}
	isDel := func(in ssa.Instruction) bool {
		for _, d := range delInstrs {
			if d == in {
				return true
			}
		}
		return false
	}
	x.agg(len(exitsReachableAvoiding(removeFn, nil, isDel)) == 0, "C20.R3:remove-deletes-id", c20r3, p.Pos(removeFn.Pos()), "a path through RemovePunchAttempt returns without deleting the id")

	// AddPunchAttempt stores meta under id
	idA := strParam(addFn)
	var metaA *ssa.Parameter
	for _, prm := range addFn.Params[1:] {
		if _, ok := prm.Type().Underlying().(*types.Struct); ok {
			metaA = prm
		}
	}
	nAdd := 0
	allInstrs(addFn, func(in ssa.Instruction) {
		upd, ok := in.(*ssa.MapUpdate)
		if !ok {
			return
		}
		ap := accessPath(upd.Map)
		if len(ap.Fields) != 1 || !registry[ap.Fields[0]] {
			return
		}
		nAdd++
		good := idA != nil && metaA != nil && resolve(upd.Key) == ssa.Value(idA) && resolve(upd.Value) == ssa.Value(metaA)
		x.agg(good, "C20.R3:add-stores-meta-under-id", c20r3, p.InstrPos(upd), "AddPunchAttempt registers something other than (id → meta): removal by id no longer removes what the reader matches against")
	})
	c.Floor("C20.R3:add-update", nAdd, 1)

	// lock discipline + no snapshot, for every map field of the conn that is a registry
	nAcc := 0
	var regNames []string
	for f := range registry {
		regNames = append(regNames, f.Name())
		nAcc += x.mapDiscipline(c20r3, "C20.R3:"+f.Name(), f, mu)
	}
	sort.Strings(regNames)
	c.Floor("C20.R3:registry-accesses", nAcc, 1) // add / remove / decode sites have their own anchors

	// the reader's decode sites use live registry entries
	for _, site := range x.baseSites {
		fn := site.Parent()
		var metaArg ssa.Value
		for _, a := range site.Call.Args {
			if _, ok := a.Type().Underlying().(*types.Struct); ok {
				metaArg = a
			}
		}
		live := false
		detail := "the metadata handed to DecodePunchPacket by the reader is not the value of a range/lookup over the registry map (" + strings.Join(regNames, ",") + ") that RemovePunchAttempt deletes from"
		if metaArg != nil {
			if e, ok := resolve(metaArg).(*ssa.Extract); ok {
				switch t := e.Tuple.(type) {
				case *ssa.Next:
					if rg, ok := t.Iter.(*ssa.Range); ok && e.Index == 2 {
						ap := accessPath(rg.X)
						live = len(ap.Fields) == 1 && registry[ap.Fields[0]] && ap.Root == ssa.Value(fn.Params[0])
					}
				case *ssa.Lookup:
					ap := accessPath(t.X)
					live = e.Index == 0 && len(ap.Fields) == 1 && registry[ap.Fields[0]] && ap.Root == ssa.Value(fn.Params[0])
				}
			} else if lk, ok := resolve(metaArg).(*ssa.Lookup); ok {
				ap := accessPath(lk.X)
				live = len(ap.Fields) == 1 && registry[ap.Fields[0]] && ap.Root == ssa.Value(fn.Params[0])
			}
		}
		x.agg(live, "C20.R3:decode-with-live-registry-entry:"+fnName(fn), c20r3, p.InstrPos(site), detail)
	}
	c.Floor("C20.R3:decode-sites", len(x.baseSites), 1)
}

// ---------------------------------------------------------------------------
// R4: the punch decoder

func (x *c20ctx) ruleDecoder(encodeFn *ssa.Function, fNonce, fObfs *types.Var, maxPad *types.Const) {
	c, p := x.c, x.p
	D := x.decodeFn
	c.Saw(fnName(D))
	var pkt, meta *ssa.Parameter
	metaIdx := -1
	for i, prm := range D.Params {
		if c20isByteSlice(prm.Type()) && pkt == nil {
			pkt = prm
		}
		if _, ok := prm.Type().Underlying().(*types.Struct); ok {
			meta = prm
			metaIdx = i
		}
	}
	errIdx := c20resultIdx(D, c20isError)
	if pkt == nil || meta == nil || errIdx < 0 {
		c.Unres("DecodePunchPacket(packet []byte, meta PunchMetadata) (…, error)")
		return
	}
	srcs := c20succSources(D, errIdx, true)
	c.Floor("C20.R4:success-returns", len(srcs), 1)
	if len(srcs) == 0 {
		return
	}
	x.fNonce, x.fObfs = fNonce, fObfs
	// frD: the decoder's own frame (completed once the un-XOR call is known);
	// guards are looked for in DecodePunchPacket and, through the success edge
	// of a repository helper applied to the packet / the un-XORed payload, in
	// that helper (c20srcHolds).
	var frD *c20frame
	var maskFn *ssa.Function
	allGuarded := func(kind string, mkPred func(fr *c20frame) EdgePred) (bool, string) {
		for _, s := range srcs {
			if !x.c20srcHolds(frD, s, true, maskFn, kind, mkPred) {
				return false, p.InstrPos(s.ret)
			}
		}
		return true, p.InstrPos(srcs[0].ret)
	}

	// the un-XOR call: a repo callee receiving (a copy of) the packet's tail
	type maskCall struct {
		call            *ssa.Call
		fn              *ssa.Function
		data            ssa.Value
		dataIdx, S      int
		saltIdx, keyIdx int
		saltOK, keyOK   bool
	}
	findMask := func(fn *ssa.Function, isPacket func(root ssa.Value) bool) []maskCall {
		var out []maskCall
		for _, ci := range callsIn(fn, func(ci ssa.CallInstruction) bool {
			f := staticCallee(ci)
			return f != nil && len(f.Blocks) > 0 && p.IsRepoFn(f)
		}) {
			call, ok := ci.(*ssa.Call)
			if !ok {
				continue
			}
			for i, a := range call.Call.Args {
				if !c20isByteSlice(a.Type()) {
					continue
				}
				root, lo, hi, ok := c20sliceChain(c20unwrapCopy(a))
				if !ok || !isPacket(root) || hi != -1 || lo <= 0 {
					continue
				}
				if !c20writesParam(staticCallee(call), i, 0) {
					continue // a helper that only reads the payload (extracted parser) is not the un-XOR
				}
				mc := maskCall{call: call, fn: staticCallee(call), data: resolve(a), dataIdx: i, S: int(lo), saltIdx: -1, keyIdx: -1}
				for j, b := range call.Call.Args {
					if j == i || !c20isByteSlice(b.Type()) {
						continue
					}
					r2, lo2, hi2, ok2 := c20sliceChain(b)
					if ok2 && isPacket(r2) {
						mc.saltIdx = j
						mc.saltOK = lo2 == 0 && hi2 == lo
						continue
					}
					o := x.origins(b)
					mc.keyIdx = j
					mc.keyOK = o.fields[fObfs] && !o.fields[fNonce]
				}
				out = append(out, mc)
				break
			}
		}
		return out
	}
	var masks []maskCall
	for _, m := range findMask(D, func(root ssa.Value) bool { return root == ssa.Value(pkt) }) {
		dom := true // only calls every success return has passed
		for _, s := range srcs {
			if !dominates(m.call, s.ret) {
				dom = false
			}
		}
		if dom {
			masks = append(masks, m)
		}
	}
	if !x.agg(len(masks) == 1, "C20.R4:unxor-call", c20r4, p.Pos(D.Pos()), fmt.Sprintf("expected exactly one un-XOR call on packet[salt:] that every success return of DecodePunchPacket has passed, found %d", len(masks))) {
		return
	}
	mk := masks[0]
	c.Saw(fnName(mk.fn))
	X := mk.data // the buffer holding the un-XORed payload
	S := int64(mk.S)
	x.agg(mk.saltIdx >= 0 && mk.saltOK, "C20.R4:mask-salt-is-packet-head", c20r4, p.InstrPos(mk.call), "the salt given to the mask function is not packet[:salt] adjoining the payload packet[salt:]")
	x.agg(mk.keyIdx >= 0 && mk.keyOK, "C20.R4:mask-key-from-meta.Obfs", c20r4, p.InstrPos(mk.call), "the key given to the mask function does not derive from meta.Obfs only (a packet would decode under another attempt's key)")
	if mk.keyIdx >= 0 {
		o := x.origins(mk.call.Call.Args[mk.keyIdx])
		x.agg(o.params[metaIdx], "C20.R4:mask-key-from-meta.Obfs", c20r4, p.InstrPos(mk.call), "the key does not derive from this call's meta parameter")
	}
	// mask function mixes key and salt
	if mk.keyIdx >= 0 && mk.saltIdx >= 0 {
		M := mk.fn
		dataP, keyP, saltP := ssa.Value(M.Params[mk.dataIdx]), ssa.Value(M.Params[mk.keyIdx]), ssa.Value(M.Params[mk.saltIdx])
		nX := 0
		mixes := true
		allInstrs(M, func(in ssa.Instruction) {
			var operand ssa.Value
			switch t := in.(type) {
			case *ssa.Store:
				ia, ok := t.Addr.(*ssa.IndexAddr)
				if !ok || !c20sliceOf(ia.X, dataP) {
					return
				}
				operand = t.Val
			case *ssa.Call:
				f := staticCallee(t)
				if f == nil || f.Name() != "XORBytes" || len(t.Call.Args) != 3 || !c20sliceOf(t.Call.Args[0], dataP) {
					return
				}
				operand = t
			default:
				return
			}
			nX++
			set := c20depsWithEffects(M, operand)
			if !set[keyP] || !set[saltP] {
				mixes = false
			}
		})
		if nX == 0 {
			c.Undecided("C20.R4:mask-mixes-key-and-salt", c20r4, p.Pos(M.Pos()), "no store into the payload found in the mask function")
		} else {
			x.agg(mixes, "C20.R4:mask-mixes-key-and-salt", c20r4, p.Pos(M.Pos()), "the bytes XORed into the payload do not depend on both the key and the salt parameter")
		}
	}

	maskFn = mk.fn
	frD = &c20frame{
		fn:      D,
		X:       X,
		lenRel:  map[ssa.Value]int64{pkt: 0},
		lenVals: map[ssa.Value]int64{},
		after:   func(in ssa.Instruction) bool { return dominates(mk.call, in) },
		metaDerived: func(v ssa.Value) bool {
			return x.origins(v).params[metaIdx]
		},
		nonceOK: func(v ssa.Value) bool {
			b := resolve(v)
			if _, sliced := b.(*ssa.Slice); sliced {
				return false // only part of the nonce is compared
			}
			o := x.origins(b)
			return o.fields[fNonce] && !o.fields[fObfs] && o.params[metaIdx]
		},
	}
	if _, isCall := X.(*ssa.Call); isCall {
		frD.lenRel[X] = S // a fresh copy of packet[salt:]: len(packet) = len(X) + salt
	}

	// header extent actually read by the decoder (and by helpers it hands the
	// un-XORed payload to), relative to X
	onX := frD.onX
	var H int64
	allInstrs(D, func(in ssa.Instruction) {
		switch t := in.(type) {
		case *ssa.Slice:
			if _, hi, ok := onX(t); ok && hi > H {
				H = hi
			}
		case *ssa.IndexAddr:
			if lo, _, ok := onX(t.X); ok {
				if k, isC := constInt(t.Index); isC && lo+k+1 > H {
					H = lo + k + 1
				}
			}
		case *ssa.Call:
			g := staticCallee(t)
			if g == nil || g == mk.fn || len(g.Blocks) == 0 || !p.IsRepoFn(g) {
				return
			}
			for i, a := range t.Call.Args {
				if !c20isByteSlice(a.Type()) || i >= len(g.Params) {
					continue
				}
				if lo, _, ok := onX(a); ok {
					if h := x.c20writeExtent(g, map[ssa.Value]int64{g.Params[i]: -lo}, mk.fn, 1); h > H {
						H = h
					}
				}
			}
		}
	})
	if !x.agg(H > 0, "C20.R4:header-extent", c20r4, p.Pos(D.Pos()), "no constant-offset reads of the un-XORed payload found") {
		return
	}
	// header extent written by the encoder (payload relative): the wire format's
	// header length is whichever of the two reaches further
	// The mask call and the payload lay-out may sit in helpers extracted from the
	// encoder (seal / build functions): helpers are searched two levels deep, and
	// a helper's parameters are read as the arguments of the call that reached it.
	var em []c20encMask
	var encWalk func(l *c20encLevel, d int)
	encWalk = func(l *c20encLevel, d int) {
		for _, m := range findMask(l.fn, func(root ssa.Value) bool { return l.isFresh(root, 0) }) {
			if m.keyIdx >= 0 {
				fl := map[*types.Var]bool{}
				x.c20fieldsAt(m.call.Call.Args[m.keyIdx], l, fl)
				m.keyOK = fl[fObfs] && !fl[fNonce]
			}
			em = append(em, c20encMask{call: m.call, fn: m.fn, data: m.data, dataIdx: m.dataIdx, S: m.S, saltIdx: m.saltIdx, keyIdx: m.keyIdx, saltOK: m.saltOK, keyOK: m.keyOK, lvl: l})
		}
		if d >= 2 {
			return
		}
		for _, ci := range callsIn(l.fn, func(ci ssa.CallInstruction) bool {
			g := staticCallee(ci)
			return g != nil && g != mk.fn && len(g.Blocks) > 0 && p.IsRepoFn(g)
		}) {
			call, ok := ci.(*ssa.Call)
			if !ok {
				continue
			}
			g := staticCallee(call)
			rec := false
			for u := l; u != nil; u = u.up {
				if u.fn == g {
					rec = true
				}
			}
			if !rec {
				encWalk(&c20encLevel{fn: g, site: call, up: l}, d+1)
			}
		}
	}
	encWalk(&c20encLevel{fn: encodeFn}, 0)
	hDec := H
	var hEnc int64
	// srcExtent: header extent written into the plain payload `src` (seen in
	// level l) before it is copied behind the salt.
	var srcExtent func(src ssa.Value, l *c20encLevel, depth int) int64
	srcExtent = func(src ssa.Value, l *c20encLevel, depth int) int64 {
		r, slo, _, ok := c20sliceChain(src)
		if !ok || slo != 0 || depth > 3 {
			return 0
		}
		if _, isMake := r.(*ssa.MakeSlice); isMake {
			return x.c20writeExtent(l.fn, map[ssa.Value]int64{r: 0}, mk.fn, 0)
		}
		if a, ul := l.lift(r); a != nil {
			return srcExtent(a, ul, depth+1)
		}
		bc, bi := c20callResult(r)
		if bc == nil {
			return 0
		}
		// the plain payload is laid out by an extracted builder: its returned
		// fresh buffer is the payload
		g := staticCallee(bc)
		if g == nil || len(g.Blocks) == 0 || !p.IsRepoFn(g) || g == mk.fn {
			return 0
		}
		if bi < 0 {
			bi = 0
		}
		grel := map[ssa.Value]int64{}
		allInstrs(g, func(gin ssa.Instruction) {
			if r, ok := gin.(*ssa.Return); ok {
				if res := retResults(r); res != nil && bi < len(res) {
					var ss []c20src
					c20expand(res[bi], r.Block(), nil, r, 0, &ss)
					for _, s := range ss {
						if gr, glo, _, ok := c20sliceChain(s.v); ok && glo == 0 {
							if _, isMake := gr.(*ssa.MakeSlice); isMake {
								grel[gr] = 0
							}
						}
					}
				}
			}
		})
		return x.c20writeExtent(g, grel, mk.fn, 0)
	}
	for _, e := range em {
		if e.fn != mk.fn {
			continue
		}
		F := e.lvl.fn
		out, _, _, _ := c20sliceChain(e.data) // the packet under construction
		rel := map[ssa.Value]int64{out: int64(e.S)}
		allInstrs(F, func(in ssa.Instruction) {
			if call, ok := in.(*ssa.Call); ok && isBuiltinCall(call, "copy") {
				if r, lo, _, ok := c20sliceChain(call.Call.Args[0]); ok && r == out && lo == int64(e.S) {
					if h := srcExtent(call.Call.Args[1], e.lvl, 0); h > hEnc {
						hEnc = h
					}
				}
			}
		})
		if h := x.c20writeExtent(F, rel, mk.fn, 0); h > hEnc {
			hEnc = h
		}
	}
	if hEnc > H {
		H = hEnc
	}
	padV, _ := constant.Int64Val(constant.ToInt(maxPad.Val()))
	c.Notes = append(c.Notes, fmt.Sprintf("C20.R4 wire layout: salt=%d header=%d (decoder reads %d, encoder writes %d) maxPadding=%d ⇒ window [%d,%d]", S, H, hDec, hEnc, padV, S+H, S+H+padV))

	ok, pos := allGuarded("len-lo", func(fr *c20frame) EdgePred {
		return func(cond ssa.Value, pol bool) bool {
			lo, _, hasLo, _ := c20lenBound(cond, pol, fr)
			return hasLo && lo >= S+H
		}
	})
	x.agg(ok, "C20.R4:length-lower-bound", c20r4, pos, fmt.Sprintf("a success return is reachable without len(packet) >= %d (salt %d + header %d read by the decoder): truncated packets can decode", S+H, S, H))
	ok, pos = allGuarded("len-hi", func(fr *c20frame) EdgePred {
		return func(cond ssa.Value, pol bool) bool {
			_, hi, _, hasHi := c20lenBound(cond, pol, fr)
			return hasHi && hi <= S+H+padV
		}
	})
	x.agg(ok, "C20.R4:length-upper-bound", c20r4, pos, fmt.Sprintf("a success return is reachable without len(packet) <= %d (salt+header+MaxPunchPadding): over-long packets are accepted as punch packets", S+H+padV))

	// comparisons on the payload
	type cmp struct {
		call  *ssa.Call
		a, b  ssa.Value // a on X, b the other operand
		lo    int64
		hi    int64
		prefx bool
	}
	// cmpOf: the edge (cond, pol) establishes that a slice of the un-XORed
	// payload equals (starts with) another byte string: bytes.Equal / HasPrefix,
	// bytes.Compare(..) == 0, subtle.ConstantTimeCompare(..) == 1.
	cmpOf := func(fr *c20frame, cond ssa.Value, pol bool) *cmp {
		var call *ssa.Call
		switch t := cond.(type) {
		case *ssa.Call:
			if !pol {
				return nil
			}
			f := staticCallee(t)
			if f == nil || c20pkgPath(f) != "bytes" || (f.Name() != "Equal" && f.Name() != "HasPrefix") {
				return nil
			}
			call = t
		case *ssa.BinOp:
			if t.Op != token.EQL && t.Op != token.NEQ {
				return nil
			}
			cc, _ := resolve(t.X).(*ssa.Call)
			k, isC := constInt(t.Y)
			if cc == nil {
				cc, _ = resolve(t.Y).(*ssa.Call)
				k, isC = constInt(t.X)
			}
			if cc == nil || !isC {
				return nil
			}
			f := staticCallee(cc)
			if f == nil {
				return nil
			}
			isEq := (t.Op == token.EQL) == pol // the edge says result == k
			switch {
			case c20pkgPath(f) == "bytes" && f.Name() == "Compare":
				if !(isEq && k == 0) {
					return nil
				}
			case c20pkgPath(f) == "crypto/subtle" && f.Name() == "ConstantTimeCompare":
				// result is 0 or 1
				if !((isEq && k == 1) || (!isEq && k == 0)) {
					return nil
				}
			default:
				return nil
			}
			call = cc
		default:
			return nil
		}
		if len(call.Call.Args) != 2 {
			return nil
		}
		if !fr.after(call) {
			return nil // compared before the un-XOR
		}
		prefx := staticCallee(call).Name() == "HasPrefix"
		a, b := call.Call.Args[0], call.Call.Args[1]
		if lo, hi, ok := fr.onX(a); ok {
			return &cmp{call, a, b, lo, hi, prefx}
		}
		if !prefx {
			if lo, hi, ok := fr.onX(b); ok {
				return &cmp{call, b, a, lo, hi, false}
			}
		}
		return nil
	}
	repoArrayGlobal := func(v ssa.Value) (*ssa.Global, int64) {
		g, isG := v.(*ssa.Global)
		if !isG || g.Pkg == nil || !isRepoPath(g.Pkg.Pkg.Path()) {
			return nil, 0
		}
		arr, isArr := g.Type().(*types.Pointer).Elem().Underlying().(*types.Array)
		if !isArr {
			return nil, 0
		}
		return g, arr.Len()
	}
	var magicG *ssa.Global
	ok, pos = allGuarded("magic", func(fr *c20frame) EdgePred {
		return func(cond ssa.Value, pol bool) bool {
			// array comparison [N]byte(payload[:N]) == magic
			if b, isB := cond.(*ssa.BinOp); isB && ((b.Op == token.EQL && pol) || (b.Op == token.NEQ && !pol)) {
				for _, pr := range [][2]ssa.Value{{b.X, b.Y}, {b.Y, b.X}} {
					gu, ok1 := resolve(pr[0]).(*ssa.UnOp)
					pu, ok2 := resolve(pr[1]).(*ssa.UnOp)
					if !ok1 || !ok2 || gu.Op != token.MUL || pu.Op != token.MUL {
						continue
					}
					g, n := repoArrayGlobal(gu.X)
					sa, isSA := pu.X.(*ssa.SliceToArrayPointer)
					if g == nil || !isSA || !fr.after(pu) {
						continue
					}
					if lo, hi, ok := fr.onX(sa.X); ok && lo == 0 && (hi == -1 || hi >= n) {
						if at, isArr := sa.Type().(*types.Pointer).Elem().Underlying().(*types.Array); isArr && at.Len() == n {
							magicG = g
							return true
						}
					}
				}
			}
			cm := cmpOf(fr, cond, pol)
			if cm == nil || cm.lo != 0 {
				return false
			}
			root, lo, hi, ok := c20sliceChain(cm.b)
			g, n := repoArrayGlobal(root)
			if !ok || g == nil || lo != 0 {
				return false
			}
			if hi != -1 && hi != n {
				return false
			}
			if !cm.prefx && cm.hi != n {
				return false
			}
			magicG = g
			return true
		}
	})
	x.agg(ok, "C20.R4:magic-equality", c20r4, pos, "a success return is reachable without the un-XORed payload starting with the package's magic array")
	if magicG != nil {
		// the encoder, or a repository helper it calls (payload builder extracted
		// from it), reads the same magic array
		used := false
		for _, f := range x.c20repoReach(encodeFn, 4) {
			allInstrs(f, func(in ssa.Instruction) {
				for _, op := range in.Operands(nil) {
					if *op == ssa.Value(magicG) {
						used = true
					}
				}
			})
		}
		x.agg(used, "C20.R4:encoder-agrees:magic", c20r4, p.Pos(encodeFn.Pos()), "neither the encoder nor a helper it calls uses the magic array the decoder compares against")
	}

	// type validity
	onXByteIn := func(fr *c20frame, v ssa.Value) bool {
		v = resolve(v)
		for i := 0; i < 4; i++ {
			switch t := v.(type) {
			case *ssa.ChangeType:
				v = resolve(t.X)
				continue
			case *ssa.Convert:
				v = resolve(t.X)
				continue
			}
			break
		}
		u, ok := v.(*ssa.UnOp)
		if !ok || u.Op != token.MUL {
			return false
		}
		ia, ok := u.X.(*ssa.IndexAddr)
		if !ok {
			return false
		}
		_, _, ok = fr.onX(ia.X)
		if !ok {
			return false
		}
		return fr.after(u)
	}
	declared := func(t types.Type) map[int64]bool {
		out := map[int64]bool{}
		nn, ok := t.(*types.Named)
		if !ok || nn.Obj().Pkg() == nil {
			return out
		}
		sc := nn.Obj().Pkg().Scope()
		for _, name := range sc.Names() {
			if k, ok := sc.Lookup(name).(*types.Const); ok && types.Identical(k.Type(), t) {
				if v, ok := constant.Int64Val(constant.ToInt(k.Val())); ok {
					out[v] = true
				}
			}
		}
		return out
	}
	eqDeclared := func(cond ssa.Value, pol bool, subject func(ssa.Value) bool) bool {
		b, ok := cond.(*ssa.BinOp)
		if !ok || !((b.Op == token.EQL && pol) || (b.Op == token.NEQ && !pol)) {
			return false
		}
		var other ssa.Value
		var subj ssa.Value
		switch {
		case subject(b.X):
			subj, other = b.X, b.Y
		case subject(b.Y):
			subj, other = b.Y, b.X
		default:
			return false
		}
		k, isC := constInt(other)
		if !isC {
			return false
		}
		d := declared(subj.Type())
		if !d[k] {
			return false
		}
		return true
	}
	validatorOK := map[*ssa.Function]bool{}
	validator := func(f *ssa.Function, argIdx int) bool {
		if v, ok := validatorOK[f]; ok {
			return v
		}
		ri := c20resultIdx(f, c20isBool)
		good := ri >= 0 && len(f.Blocks) > 0 && argIdx < len(f.Params)
		if good {
			prm := ssa.Value(f.Params[argIdx])
			isPrm := func(v ssa.Value) bool { return resolve(v) == prm }
			var all []c20src
			allInstrs(f, func(in ssa.Instruction) {
				if r, ok := in.(*ssa.Return); ok {
					if res := retResults(r); res != nil && ri < len(res) {
						c20expand(res[ri], r.Block(), nil, r, 0, &all)
					}
				}
			})
			for _, s := range all {
				v := resolve(s.v)
				if isConstBool(v, false) {
					continue
				}
				if eqDeclared(v, true, isPrm) {
					continue
				}
				if isConstBool(v, true) && c20srcGuarded(s.from, s.to, func(cond ssa.Value, pol bool) bool { return eqDeclared(cond, pol, isPrm) }) {
					continue
				}
				good = false
			}
			c.Saw(fnName(f))
		}
		validatorOK[f] = good
		return good
	}
	ok, pos = allGuarded("type", func(fr *c20frame) EdgePred {
		onXByte := func(v ssa.Value) bool { return onXByteIn(fr, v) }
		return func(cond ssa.Value, pol bool) bool {
			if eqDeclared(cond, pol, onXByte) {
				return true
			}
			if !pol {
				return false
			}
			call, isCall := cond.(*ssa.Call)
			if !isCall {
				return false
			}
			f := staticCallee(call)
			if f == nil || !p.IsRepoFn(f) {
				return false
			}
			for i, a := range call.Call.Args {
				if onXByte(a) {
					return validator(f, i)
				}
			}
			return false
		}
	})
	x.agg(ok, "C20.R4:type-is-declared-constant", c20r4, pos, "a success return is reachable without the packet type byte being tested against the declared PunchPacketType constants (the test is missing or also admits undeclared values)")

	// nonce
	ok, pos = allGuarded("nonce", func(fr *c20frame) EdgePred {
		return func(cond ssa.Value, pol bool) bool {
			cm := cmpOf(fr, cond, pol)
			if cm == nil || cm.prefx || cm.hi < 0 {
				return false
			}
			return fr.nonceOK(cm.b)
		}
	})
	x.agg(ok, "C20.R4:nonce-equality", c20r4, pos, "a success return is reachable without bytes.Equal(payload[a:b], nonce) against the complete nonce decoded from this call's meta.Nonce (a packet of another attempt, or a near miss, decodes)")

	// encoder agreement on the mask
	agree := false
	for _, e := range em {
		if e.fn == mk.fn && int64(e.S) == S && e.saltOK && e.keyOK && e.dataIdx == mk.dataIdx && e.keyIdx == mk.keyIdx && e.saltIdx == mk.saltIdx {
			agree = true
		}
	}
	x.agg(agree, "C20.R4:encoder-agrees:mask", c20r4, p.Pos(encodeFn.Pos()), "EncodePunchPacket does not mask out[salt:] with the same function, key source (meta.Obfs) and salt split as the decoder")
}

// c20encLevel: a function on the encoder side -- EncodePunchPacket itself
// (up == nil) or a repository helper reached from it through the call `site`
// in level `up`.
type c20encLevel struct {
	fn   *ssa.Function
	site *ssa.Call
	up   *c20encLevel
}

// lift reads a parameter of the level's function as the argument of the call
// that reached it (nil when v is not such a parameter).
func (l *c20encLevel) lift(v ssa.Value) (ssa.Value, *c20encLevel) {
	prm, ok := resolve(v).(*ssa.Parameter)
	if !ok || l == nil || l.up == nil || l.site == nil {
		return nil, nil
	}
	for i, q := range l.fn.Params {
		if q == prm && i < len(l.site.Call.Args) {
			return l.site.Call.Args[i], l.up
		}
	}
	return nil, nil
}

// isFresh: root is a buffer made on the encoder side (make([]byte, n) here, or
// a whole buffer made by the caller and handed down).
func (l *c20encLevel) isFresh(root ssa.Value, depth int) bool {
	if _, isMake := root.(*ssa.MakeSlice); isMake {
		return true
	}
	if depth > 3 {
		return false
	}
	if a, ul := l.lift(root); a != nil {
		if r, lo, hi, ok := c20sliceChain(a); ok && lo == 0 && hi == -1 {
			return ul.isFresh(r, depth+1)
		}
	}
	return false
}

// c20fieldsAt: the struct fields v (a value of level l) is computed from,
// parameters of helper levels being followed to the arguments they receive.
func (x *c20ctx) c20fieldsAt(v ssa.Value, l *c20encLevel, out map[*types.Var]bool) {
	o := x.origins(v)
	for f := range o.fields {
		out[f] = true
	}
	if l == nil || l.up == nil || l.site == nil {
		return
	}
	for pi := range o.params {
		if pi < len(l.site.Call.Args) {
			x.c20fieldsAt(l.site.Call.Args[pi], l.up, out)
		}
	}
}

// c20encMask: a mask call found on the encoder side, in level lvl.
type c20encMask struct {
	call            *ssa.Call
	fn              *ssa.Function
	data            ssa.Value
	dataIdx, S      int
	saltIdx, keyIdx int
	saltOK, keyOK   bool
	lvl             *c20encLevel
}

// c20writesParam: fn stores into (a slice of) its byte-slice parameter #idx,
// directly, by copy/clear/subtle.XORBytes, or through a callee with a body
// (two levels).
func c20writesParam(fn *ssa.Function, idx int, depth int) bool {
	if fn == nil || idx >= len(fn.Params) || len(fn.Blocks) == 0 {
		return false
	}
	prm := ssa.Value(fn.Params[idx])
	found := false
	allInstrs(fn, func(in ssa.Instruction) {
		if found {
			return
		}
		switch t := in.(type) {
		case *ssa.Store:
			if ia, ok := t.Addr.(*ssa.IndexAddr); ok && c20sliceOf(ia.X, prm) {
				found = true
			}
		case *ssa.Call:
			if b, ok := t.Call.Value.(*ssa.Builtin); ok {
				if (b.Name() == "copy" || b.Name() == "clear") && len(t.Call.Args) > 0 && c20sliceOf(t.Call.Args[0], prm) {
					found = true
				}
				return
			}
			f := staticCallee(t)
			if f == nil {
				return
			}
			if f.Name() == "XORBytes" && len(t.Call.Args) == 3 && c20sliceOf(t.Call.Args[0], prm) {
				found = true
				return
			}
			if depth >= 2 {
				return
			}
			for j, a := range t.Call.Args {
				if c20isByteSlice(a.Type()) && c20sliceOf(a, prm) && c20writesParam(f, j, depth+1) {
					found = true
				}
			}
		}
	})
	return found
}

// c20frame: a function in which a guard of the punch decoder is looked for,
// with what the guard predicates need to know about its values.  The root
// frame is DecodePunchPacket; a child frame is a repository helper the decoder
// applies to the packet / the un-XORed payload (checks extracted from it).
type c20frame struct {
	fn          *ssa.Function
	X           ssa.Value                  // buffer holding the un-XORed payload (nil: none in this frame)
	xOff        int64                      // payload offset of X[0]
	lenRel      map[ssa.Value]int64        // byte slice v -> d with len(packet) = len(v) + d
	lenVals     map[ssa.Value]int64        // integer v -> d with len(packet) = v + d
	after       func(ssa.Instruction) bool // the instruction runs after the un-XOR
	nonceOK     func(ssa.Value) bool       // the value is the complete nonce decoded from this call's meta.Nonce
	metaDerived func(ssa.Value) bool       // the value derives from the decoder's meta parameter
	depth       int
}

// onX describes v as payload[lo:hi] (hi == -1: open ended).
func (fr *c20frame) onX(v ssa.Value) (lo, hi int64, ok bool) {
	if fr.X == nil {
		return 0, 0, false
	}
	root, lo, hi, ok := c20sliceChainTo(v, fr.X)
	if !ok || root != fr.X {
		return 0, 0, false
	}
	if hi >= 0 {
		hi += fr.xOff
	}
	return lo + fr.xOff, hi, true
}

// lenDelta: v == len(packet) - d.
func (fr *c20frame) lenDelta(v ssa.Value) (int64, bool) {
	r := resolve(v)
	if d, ok := fr.lenVals[r]; ok {
		return d, true
	}
	call, ok := r.(*ssa.Call)
	if !ok || !isBuiltinCall(call, "len") || len(call.Call.Args) != 1 {
		return 0, false
	}
	a := resolve(call.Call.Args[0])
	if d, ok := fr.lenRel[a]; ok {
		return d, true
	}
	if root, lo, hi, ok := c20sliceChain(a); ok && hi == -1 {
		if d, ok := fr.lenRel[root]; ok {
			return d + lo, true
		}
	}
	return 0, false
}

// c20srcHolds: the source s of a success result in frame fr is behind an edge
// accepted by mkPred(fr), or behind / equal to the success of a repository
// helper all of whose success returns are (recursively, two levels) behind
// mkPred(helper frame).  For bool results the returned condition itself may
// be the accepted test (`return a == b`).
func (x *c20ctx) c20srcHolds(fr *c20frame, s c20src, isErr bool, skip *ssa.Function, kind string, mkPred func(*c20frame) EdgePred) bool {
	pred := mkPred(fr)
	v := resolve(s.v)
	if !isErr && !isConstBool(v, true) && pred(v, true) {
		return true
	}
	if call, idx := c20callResult(v); call != nil && !isNilConst(v) {
		if x.c20helperCall(fr, call, idx, isErr, skip, kind, mkPred) {
			return true
		}
	}
	lifted := func(cond ssa.Value, pol bool) bool {
		if pred(cond, pol) {
			return true
		}
		if y, isNil, ok := nilTest(cond, pol); ok && isNil {
			if call, idx := c20callResult(y); call != nil && x.c20helperCall(fr, call, idx, true, skip, kind, mkPred) {
				return true
			}
		}
		if pol {
			if call, idx := c20callResult(cond); call != nil && x.c20helperCall(fr, call, idx, false, skip, kind, mkPred) {
				return true
			}
		}
		return false
	}
	return c20srcGuarded(s.from, s.to, lifted)
}

// c20helperCall: result #idx of `call` (made in frame fr) denotes success only
// behind mkPred in the callee's frame.
func (x *c20ctx) c20helperCall(fr *c20frame, call *ssa.Call, idx int, wantErr bool, skip *ssa.Function, kind string, mkPred func(*c20frame) EdgePred) bool {
	g := staticCallee(call)
	if g == nil || g == skip || fr.depth >= 2 || len(g.Blocks) == 0 || !x.p.IsRepoFn(g) || g == fr.fn {
		return false
	}
	var ri int
	if wantErr {
		ri = c20resultIdx(g, c20isError)
	} else {
		ri = c20resultIdx(g, c20isBool)
	}
	if ri < 0 || !(idx == ri || (idx == -1 && g.Signature.Results().Len() == 1)) {
		return false
	}
	key := fmt.Sprintf("%p/%s/%v/%d", call, kind, wantErr, fr.depth)
	if v, ok := x.helperMemo[key]; ok {
		return v
	}
	x.helperMemo[key] = false // recursion guard
	args := call.Call.Args
	ch := &c20frame{fn: g, lenRel: map[ssa.Value]int64{}, lenVals: map[ssa.Value]int64{}, depth: fr.depth + 1,
		after: func(ssa.Instruction) bool { return true }}
	isAfter := fr.after(call)
	relevant := false
	for i, a := range args {
		if i >= len(g.Params) {
			break
		}
		prm := g.Params[i]
		if c20isByteSlice(a.Type()) {
			if lo, _, ok := fr.onX(a); ok && isAfter && ch.X == nil {
				ch.X, ch.xOff = prm, lo
				relevant = true
			}
			ra := resolve(a)
			if d, ok := fr.lenRel[ra]; ok {
				ch.lenRel[prm] = d
				relevant = true
			} else if root, lo, hi, ok := c20sliceChain(ra); ok && hi == -1 {
				if d, ok := fr.lenRel[root]; ok {
					ch.lenRel[prm] = d + lo
					relevant = true
				}
			}
			continue
		}
		if b, ok := a.Type().Underlying().(*types.Basic); ok && b.Info()&types.IsInteger != 0 {
			if d, ok := fr.lenDelta(a); ok {
				ch.lenVals[prm] = d
				relevant = true
			}
		}
	}
	if !relevant {
		return false // not applied to the packet, its length or the payload
	}
	ch.metaDerived = func(v ssa.Value) bool {
		o := x.origins(v)
		for j := range o.params {
			if j < len(args) && fr.metaDerived(args[j]) {
				return true
			}
		}
		return false
	}
	ch.nonceOK = func(v ssa.Value) bool {
		r := resolve(v)
		if prm, ok := r.(*ssa.Parameter); ok && prm.Parent() == g {
			for i, q := range g.Params {
				if q == prm && i < len(args) {
					return fr.nonceOK(args[i])
				}
			}
			return false
		}
		if _, sliced := r.(*ssa.Slice); sliced {
			return false
		}
		o := x.origins(r)
		return o.fields[x.fNonce] && !o.fields[x.fObfs] && ch.metaDerived(r)
	}
	x.c.Saw(fnName(g))
	srcs := c20succSources(g, ri, wantErr)
	good := len(srcs) > 0
	for _, s := range srcs {
		if !x.c20srcHolds(ch, s, wantErr, skip, kind, mkPred) {
			good = false
			break
		}
	}
	x.helperMemo[key] = good
	return good
}

// c20repoReach: fn and the repository functions (with bodies) it calls
// statically, up to `depth` levels.
func (x *c20ctx) c20repoReach(fn *ssa.Function, depth int) []*ssa.Function {
	seen := map[*ssa.Function]bool{}
	var out []*ssa.Function
	var walk func(f *ssa.Function, d int)
	walk = func(f *ssa.Function, d int) {
		if f == nil || seen[f] || len(f.Blocks) == 0 || !x.p.IsRepoFn(f) {
			return
		}
		seen[f] = true
		out = append(out, f)
		if d >= depth {
			return
		}
		for _, ci := range callsIn(f, func(ci ssa.CallInstruction) bool { return staticCallee(ci) != nil }) {
			walk(staticCallee(ci), d+1)
		}
		for _, an := range f.AnonFuncs {
			walk(an, d+1)
		}
	}
	walk(fn, 0)
	return out
}

// c20writeExtent: the furthest constant offset (relative to the payload start)
// at which fn slices / indexes one of the buffers in rel (buffer -> offset of
// the payload start inside it).  Repository helpers that receive a constant
// slice of such a buffer are followed (not `skip`, the mask function).
func (x *c20ctx) c20writeExtent(fn *ssa.Function, rel map[ssa.Value]int64, skip *ssa.Function, depth int) int64 {
	var h int64
	if len(rel) == 0 {
		return 0
	}
	allInstrs(fn, func(in ssa.Instruction) {
		var root ssa.Value
		var bound int64
		switch t := in.(type) {
		case *ssa.Slice:
			r, lo, hi, ok := c20sliceChain(t)
			if !ok {
				return
			}
			root, bound = r, lo
			if hi > bound {
				bound = hi
			}
		case *ssa.IndexAddr:
			r, lo, _, ok := c20sliceChain(t.X)
			k, isC := constInt(t.Index)
			if !ok || !isC {
				return
			}
			root, bound = r, lo+k+1
		case *ssa.Call:
			g := staticCallee(t)
			if g == nil || g == skip || depth >= 2 || len(g.Blocks) == 0 || !x.p.IsRepoFn(g) {
				return
			}
			grel := map[ssa.Value]int64{}
			for i, a := range t.Call.Args {
				if !c20isByteSlice(a.Type()) || i >= len(g.Params) {
					continue
				}
				if r, lo, _, ok := c20sliceChain(a); ok {
					if base, isRel := rel[r]; isRel {
						grel[g.Params[i]] = base - lo
					}
				}
			}
			if gh := x.c20writeExtent(g, grel, skip, depth+1); gh > h {
				h = gh
			}
			return
		default:
			return
		}
		if base, ok := rel[root]; ok && bound-base > h {
			h = bound - base
		}
	})
	return h
}

// ---------------------------------------------------------------------------
// R5: server-side attempt lifecycle

func (x *c20ctx) ruleLifecycle(addFn, removeFn *ssa.Function) {
	c, p := x.c, x.p
	strParamIdx := func(fn *ssa.Function) int {
		for i, prm := range fn.Params {
			if i == 0 && fn.Signature.Recv() != nil {
				continue
			}
			if b, ok := prm.Type().Underlying().(*types.Basic); ok && b.Kind() == types.String {
				return i
			}
		}
		return -1
	}
	// removers: fn -> index of the id parameter; RemovePunchAttempt and helpers that call a remover with their own id on every path
	removers := map[*ssa.Function]int{removeFn: strParamIdx(removeFn)}
	isRemoveOf := func(in ssa.Instruction, id ssa.Value) bool {
		ci, ok := in.(ssa.CallInstruction)
		if !ok {
			return false
		}
		if _, isGo := in.(*ssa.Go); isGo {
			return false
		}
		f := staticCallee(ci)
		if f == nil {
			return false
		}
		pi, ok := removers[f]
		if !ok || pi < 0 || pi >= len(ci.Common().Args) {
			return false
		}
		return sameValue(ci.Common().Args[pi], id)
	}
	for round := 0; round < 3; round++ {
		for _, fn := range p.RepoFns {
			if _, done := removers[fn]; done || c20pkgPath(fn) != pRealm || len(fn.Blocks) == 0 {
				continue
			}
			for i, prm := range fn.Params {
				b, ok := prm.Type().Underlying().(*types.Basic)
				if !ok || b.Kind() != types.String {
					continue
				}
				has := false
				allInstrs(fn, func(in ssa.Instruction) {
					if isRemoveOf(in, prm) {
						has = true
					}
				})
				if has && len(exitsReachableAvoiding(fn, nil, func(in ssa.Instruction) bool { return isRemoveOf(in, prm) })) == 0 {
					removers[fn] = i
				}
			}
		}
	}
	// adders: AddPunchAttempt and helpers that return its error
	type addSite struct {
		call ssa.CallInstruction
		fn   *ssa.Function
	}
	paired := func(call *ssa.Call, id ssa.Value, errv ssa.Value) (bool, string) {
		fn := call.Parent()
		fail := func(cond ssa.Value, pol bool) bool {
			if errv == nil {
				return false
			}
			y, isNil, ok := nilTest(cond, pol)
			return ok && !isNil && resolve(y) == errv
		}
		stop := func(in ssa.Instruction) bool { return isRemoveOf(in, id) }
		for _, in := range reachFrom(fn, call, stop, c20liftPhi(fail)) {
			if r, ok := in.(*ssa.Return); ok {
				return false, p.InstrPos(r)
			}
		}
		return true, ""
	}
	nPairs := 0
	var check func(adder *ssa.Function, idIdx int, depth int)
	seen := map[*ssa.Function]bool{}
	check = func(adder *ssa.Function, idIdx int, depth int) {
		if seen[adder] || depth > 3 {
			return
		}
		seen[adder] = true
		for _, ci := range x.la.callers[adder] {
			call, ok := ci.(*ssa.Call)
			if !ok || !p.IsRepoFn(call.Parent()) {
				continue
			}
			fn := call.Parent()
			c.Saw(fnName(fn))
			id := call.Call.Args[idIdx]
			var errv ssa.Value
			if ei := c20resultIdx(adder, c20isError); ei >= 0 {
				if adder.Signature.Results().Len() == 1 {
					errv = call
				} else {
					errv = extractOf(call, ei)
				}
			}
			ok2, where := paired(call, id, errv)
			if ok2 {
				nPairs++
				x.agg(true, "C20.R5:add-paired-with-remove:"+fnName(fn), c20r5, p.InstrPos(call), "")
				continue
			}
			// helper: hands the obligation to its callers when the id is its own parameter and it is not used as a value
			lifted := false
			exported := fn.Object() != nil && fn.Object().Exported()
			if prm, isP := resolve(id).(*ssa.Parameter); isP && !exported && !x.la.escaped[fn] && len(x.la.callers[fn]) > 0 {
				for i, q := range fn.Params {
					if q == prm {
						lifted = true
						check(fn, i, depth+1)
					}
				}
			}
			if !lifted {
				nPairs++
				x.agg(false, "C20.R5:add-paired-with-remove:"+fnName(fn), c20r5, p.InstrPos(call), "after a successful registration a return (at "+where+") is reachable without RemovePunchAttempt of the same id, deferred or explicit: the attempt stays registered and keeps diverting packets")
			}
		}
		if x.la.escaped[adder] {
			x.agg(false, "C20.R5:add-paired-with-remove:"+fnName(adder), c20r5, p.Pos(adder.Pos()), "registration function used as a value / goroutine; pairing cannot be followed")
		}
	}
	check(addFn, strParamIdx(addFn), 0)
	c.Floor("C20.R5:add-remove-pairs", nPairs, 1)

	// the puncher's routing map(s): lock discipline
	nAcc := 0
	doneT := map[*types.Named]bool{}
	for fn := range seen {
		for _, ci := range x.la.callers[fn] {
			caller := ci.Parent()
			if caller.Signature.Recv() == nil {
				continue
			}
			nn := namedOf(caller.Signature.Recv().Type())
			if nn == nil || doneT[nn] || nn.Obj().Pkg() == nil || nn.Obj().Pkg().Path() != pRealm || nn.Obj().Name() == "PunchPacketConn" {
				continue
			}
			doneT[nn] = true
			st, ok := nn.Underlying().(*types.Struct)
			if !ok {
				continue
			}
			mu := c20structMutex(nn)
			for i := 0; i < st.NumFields(); i++ {
				f := st.Field(i)
				if _, isMap := f.Type().Underlying().(*types.Map); !isMap {
					continue
				}
				if mu == nil {
					x.agg(false, "C20.R5:"+nn.Obj().Name()+"."+f.Name()+":mutex", c20r5, p.Pos(f.Pos()), "the puncher has a map field but no single mutex field to guard it")
					continue
				}
				nAcc += x.mapDiscipline(c20r5, "C20.R5:"+nn.Obj().Name()+"."+f.Name(), f, mu)
			}
		}
	}
	c.Floor("C20.R5:routing-map-accesses", nAcc, 1)
}

// ---------------------------------------------------------------------------
// R6: the STUN parser

func (x *c20ctx) ruleSTUN(stunPkg string) {
	c, p := x.c, x.p
	var fns []*ssa.Function
	for fn := range x.stunFns {
		fns = append(fns, fn)
	}
	sort.Slice(fns, func(i, j int) bool { return fns[i].String() < fns[j].String() })
	n := 0
	for _, S := range fns {
		c.Saw(fnName(S))
		pkt := ssa.Value(S.Params[x.stunFns[S]])
		errIdx := c20resultIdx(S, c20isError)
		if errIdx < 0 {
			c.Unres("error result of " + fnName(S))
			continue
		}
		var dec *ssa.Call
		for _, ci := range callsIn(S, func(ci ssa.CallInstruction) bool {
			f := staticCallee(ci)
			return f != nil && f.Name() == "Decode" && f.Signature.Recv() == nil && c20pkgPath(f) == stunPkg
		}) {
			if call, ok := ci.(*ssa.Call); ok && resolve(call.Call.Args[0]) == pkt {
				dec = call
			}
		}
		if dec == nil {
			c.Unres("stun.Decode(packet, m) in " + fnName(S))
			continue
		}
		msg := resolve(dec.Call.Args[1])
		srcs := c20succSources(S, errIdx, true)
		n += len(srcs)
		// m.Type.<field> == stun.<constName> (the field-wise spelling of m.Type == stun.BindingSuccess)
		subEq := func(msg ssa.Value, field, constName string) EdgePred {
			var want int64 = -1
			if pp := p.byPath[stunPkg]; pp != nil && pp.Types != nil {
				if k, ok := pp.Types.Scope().Lookup(constName).(*types.Const); ok {
					want, _ = constant.Int64Val(constant.ToInt(k.Val()))
				}
			}
			return func(cond ssa.Value, pol bool) bool {
				b, ok := cond.(*ssa.BinOp)
				if !ok || want < 0 || !((b.Op == token.EQL && pol) || (b.Op == token.NEQ && !pol)) {
					return false
				}
				isSub := func(v ssa.Value) bool {
					ap := accessPath(v)
					return len(ap.Fields) == 2 && ap.Fields[0].Name() == "Type" && ap.Fields[1].Name() == field && ap.Root == msg
				}
				isWant := func(v ssa.Value) bool {
					k, isC := constInt(v)
					return isC && k == want
				}
				return (isSub(b.X) && isWant(b.Y)) || (isSub(b.Y) && isWant(b.X))
			}
		}
		okDec, okType := true, true
		posD, posT := p.Pos(S.Pos()), p.Pos(S.Pos())
		for _, s := range srcs {
			if !c20srcGuarded(s.from, s.to, func(cond ssa.Value, pol bool) bool {
				y, isNil, ok := nilTest(cond, pol)
				return ok && isNil && resolve(y) == ssa.Value(dec)
			}) {
				okDec = false
				posD = p.InstrPos(s.ret)
			}
			wholeEq := func(msg ssa.Value) EdgePred {
				return func(cond ssa.Value, pol bool) bool {
					b, ok := cond.(*ssa.BinOp)
					if !ok || !((b.Op == token.EQL && pol) || (b.Op == token.NEQ && !pol)) {
						return false
					}
					isType := func(v ssa.Value) bool {
						u, ok := resolve(v).(*ssa.UnOp)
						if !ok || u.Op != token.MUL {
							return false
						}
						fa, ok := u.X.(*ssa.FieldAddr)
						if !ok || resolve(fa.X) != msg {
							return false
						}
						f := structField(fa.X.Type(), fa.Field)
						return f != nil && f.Name() == "Type"
					}
					isSuccess := func(v ssa.Value) bool {
						u, ok := resolve(v).(*ssa.UnOp)
						if !ok || u.Op != token.MUL {
							return false
						}
						g, ok := u.X.(*ssa.Global)
						return ok && g.Name() == "BindingSuccess" && g.Pkg != nil && g.Pkg.Pkg.Path() == stunPkg
					}
					return (isType(b.X) && isSuccess(b.Y)) || (isType(b.Y) && isSuccess(b.X))
				}
			}
			// holds: the source is behind an edge accepted by mk(msg), directly or
			// over the success edge of a repository helper applied to the message
			// (`if !isBindingSuccess(msg)`, `if err := checkType(msg); err != nil`)
			holds := func(mk func(msg ssa.Value) EdgePred) bool {
				direct := mk(msg)
				viaHelper := func(call *ssa.Call, idx int, wantErr bool) bool {
					g := staticCallee(call)
					if g == nil || len(g.Blocks) == 0 || !p.IsRepoFn(g) || g == S {
						return false
					}
					var ri int
					if wantErr {
						ri = c20resultIdx(g, c20isError)
					} else {
						ri = c20resultIdx(g, c20isBool)
					}
					if ri < 0 || !(idx == ri || (idx == -1 && g.Signature.Results().Len() == 1)) {
						return false
					}
					for i, a := range call.Call.Args {
						if i >= len(g.Params) || resolve(a) != msg {
							continue
						}
						inner := mk(g.Params[i])
						gs := c20succSources(g, ri, wantErr)
						good := len(gs) > 0
						for _, hs := range gs {
							hv := resolve(hs.v)
							if !wantErr && !isConstBool(hv, true) && inner(hv, true) {
								continue
							}
							if !c20srcGuarded(hs.from, hs.to, inner) {
								good = false
							}
						}
						if good {
							c.Saw(fnName(g))
						}
						return good
					}
					return false
				}
				return c20srcGuarded(s.from, s.to, func(cond ssa.Value, pol bool) bool {
					if direct(cond, pol) {
						return true
					}
					if y, isNil, ok := nilTest(cond, pol); ok && isNil {
						if call, idx := c20callResult(y); call != nil && viaHelper(call, idx, true) {
							return true
						}
					}
					if pol {
						if call, idx := c20callResult(cond); call != nil && viaHelper(call, idx, false) {
							return true
						}
					}
					return false
				})
			}
			if !holds(wholeEq) && !(holds(func(m ssa.Value) EdgePred { return subEq(m, "Method", "MethodBinding") }) && holds(func(m ssa.Value) EdgePred { return subEq(m, "Class", "ClassSuccessResponse") })) {
				okType = false
				posT = p.InstrPos(s.ret)
			}
		}
		x.agg(okDec, "C20.R6:decode-ok:"+fnName(S), c20r6, posD, "the STUN parser can succeed without stun.Decode(packet, m) having returned nil")
		x.agg(okType, "C20.R6:binding-success-only:"+fnName(S), c20r6, posT, "the STUN parser can succeed for a message whose type is not stun.BindingSuccess (requests, indications and error responses arriving on the QUIC socket would be swallowed)")
	}
	c.Floor("C20.R6:success-returns", n, 1)
}

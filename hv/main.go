package main

import (
	"encoding/json"
	"fmt"
	"os"
	"runtime/debug"
	"sort"
	"strings"
	"time"
)

type propDef struct {
	ID          string
	Run         func(c *Check)
	AllDeps     bool // needs dependency/stdlib function bodies
	Technique   string
	Explanation string
	NotDecided  []string
	Assumptions []string
}

var registry = map[string]*propDef{}

func register(p *propDef) { registry[p.ID] = p }

var quickCfgs = []BuildCfg{{"linux", "amd64"}}
var thoroughCfgs = []BuildCfg{{"linux", "amd64"}, {"linux", "386"}, {"windows", "amd64"}, {"darwin", "arm64"}, {"freebsd", "amd64"}}

func usage() {
	fmt.Fprintln(os.Stderr, "usage: hv check <Cxx|all> [--tier quick|thorough] | hv explain <path> | hv list")
	os.Exit(2)
}

func main() {
	if len(os.Args) < 2 {
		usage()
	}
	switch os.Args[1] {
	case "list":
		var ids []string
		for id := range registry {
			ids = append(ids, id)
		}
		sort.Strings(ids)
		fmt.Println(strings.Join(ids, " "))
	case "describe":
		var ids []string
		for id := range registry {
			ids = append(ids, id)
		}
		sort.Strings(ids)
		var out []map[string]any
		for _, id := range ids {
			d := registry[id]
			out = append(out, map[string]any{"id": id, "technique": d.Technique, "explanation": d.Explanation, "not_decided": d.NotDecided, "assumptions": d.Assumptions})
		}
		b, _ := json.MarshalIndent(out, "", " ")
		fmt.Println(string(b))
	case "explain":
		if len(os.Args) < 3 {
			usage()
		}
		os.Exit(explain(os.Args[2]))
	case "check":
		if len(os.Args) < 3 {
			usage()
		}
		tier := envOr("VERIF_TIER", "quick")
		var onlyCfg string
		for i := 3; i < len(os.Args); i++ {
			switch os.Args[i] {
			case "--tier":
				if i+1 < len(os.Args) {
					tier = os.Args[i+1]
					i++
				}
			case "--cfg":
				if i+1 < len(os.Args) {
					onlyCfg = os.Args[i+1]
					i++
				}
			case "--no-selftest":
				noSelftest = true
			}
		}
		if tier != "quick" && tier != "thorough" {
			tier = "quick"
		}
		code := runCheck(os.Args[2], tier, onlyCfg)
		dumpNames()
		os.Exit(code)
	case "selftest":
		os.Exit(selftestMain(os.Args[2:]))
	default:
		usage()
	}
}

var noSelftest bool

func runCheck(id, tier, onlyCfg string) (code int) {
	var defs []*propDef
	if id == "all" {
		var ids []string
		for k := range registry {
			ids = append(ids, k)
		}
		sort.Strings(ids)
		for _, k := range ids {
			defs = append(defs, registry[k])
		}
	} else {
		d := registry[id]
		if d == nil {
			fmt.Fprintf(os.Stderr, "unknown property %q\n", id)
			return 2
		}
		defs = []*propDef{d}
	}
	cfgs := quickCfgs
	if tier == "thorough" {
		cfgs = thoroughCfgs
	}
	if onlyCfg != "" {
		parts := strings.SplitN(onlyCfg, "/", 2)
		cfgs = []BuildCfg{{parts[0], parts[1]}}
	}
	allDeps := false
	for _, d := range defs {
		if d.AllDeps {
			allDeps = true
		}
	}
	starts := map[string]time.Time{}
	checks := map[string]*Check{}
	for _, d := range defs {
		starts[d.ID] = time.Now()
		checks[d.ID] = &Check{ID: d.ID, Tier: tier, Analysed: map[string]bool{}, Explanation: d.Explanation, NotDecided: d.NotDecided, Assumptions: d.Assumptions, Technique: d.Technique}
	}
	var cfgNames []string
	for _, cfg := range cfgs {
		cfgNames = append(cfgNames, cfg.String())
		p, err := Load(cfg, allDeps)
		if err != nil {
			fmt.Fprintf(os.Stderr, "hv: load %s failed: %v\n", cfg, err)
			return 2
		}
		for _, d := range defs {
			c := checks[d.ID]
			c.P = p
			c.PkgCount, c.FnCount, c.LoadSecs = len(p.Pkgs), len(p.RepoFns), p.LoadSecs
			func() {
				defer func() {
					if r := recover(); r != nil {
						fmt.Fprintf(os.Stderr, "hv: checker panic in %s: %v\n%s\n", d.ID, r, debug.Stack())
						c.Unres(fmt.Sprintf("checker panic: %v", r))
					}
				}()
				d.Run(c)
			}()
		}
		for _, d := range defs {
			checks[d.ID].P = nil
		}
		p = nil
		debug.FreeOSMemory()
	}
	worst := 0
	for _, d := range defs {
		c := checks[d.ID]
		extra := map[string]any{}
		if tier == "thorough" && !noSelftest && onlyCfg == "" {
			st := runSelftests(d.ID)
			extra["selftest"] = st
			if !st.OK {
				c.Unres("selftest failed: " + strings.Join(st.Failures, "; "))
			}
		}
		rc := finish(c, cfgNames, starts[d.ID], extra)
		if rc > worst {
			worst = rc
		}
	}
	return worst
}

package main

import (
	"fmt"
	"go/constant"
	"go/token"
	"go/types"
	"os"
	"path/filepath"
	"sort"
	"strconv"
	"strings"

	"golang.org/x/tools/go/ssa"
)

func init() {
	register(&propDef{
		ID:        "C02",
		Run:       checkC02,
		Technique: "static analysis: use census of the ResponseWriter parameter + must-pass / must-not-pass reachability on the SSA CFG, must-dataflow of the three request equalities over CFG edges (with helper summaries), forward value-flow of ResponseWriter.Header(), agreement of the compared constants with protocol constants and the PROTOCOL.md request/response blocks (go/ssa, go/types, go/constant)",
		Explanation: "Decides for every path of the per-connection HTTP handler (not for sampled requests): " +
			"R1 every use of the ResponseWriter in ServeHTTP is either behind the authenticator's accept edge / the already-authenticated edge, or is the single hand-off of the unchanged (w, r) pair to the masquerade delegate; nothing touches w before or after the hand-off, every return is preceded by a response action, the request object is not written to before the hand-off; " +
			"R2 every call that passes the constant StatusAuthOK together with a ResponseWriter, and every write of a Hysteria header name into a header map obtained from ResponseWriter.Header() (followed through parameters, program-wide), happens only behind those edges; " +
			"R3 every masquerade delegate is transparent: its only uses of w are exactly one of Config.MasqHandler.ServeHTTP(w, r) / http.NotFound(w, r) (or a further transparent delegate) on every path with its own parameters unchanged, and the 404 fallback is reachable only over the MasqHandler==nil edge; " +
			"R4 the Authenticate call and every Hysteria response action are reachable only after r.Method, r.Host and r.URL.Path each compared equal (==, not a prefix/fold/disjunction) to constants whose values are http.MethodPost, protocol.URLHost, protocol.URLPath, and these constants and StatusAuthOK equal the tokens of the request/response blocks of PROTOCOL.md.",
		NotDecided: []string{
			"byte-equality of the HTTP/3 response with the stand-alone response of the masquerade handler (execution)",
			"behaviour of the configured masquerade handlers themselves (extras/masq, app/cmd wrappers) and of quic-go for non-hijacked streams",
			"mutation of the request inside callees that receive r or r.Header before the hand-off (only stores in the handler itself are examined); consumption of r.Body",
			"Hysteria header names that are not compile-time constants, or header maps assembled detached from ResponseWriter.Header() and copied in later",
			"no protocol reply on unauthenticated streams/datagrams: decided by C01.R4/R5 on the same functions, not repeated here",
		},
		Assumptions: []string{
			"the already-authenticated edge is sound because C01.R1/R2 show the flag is only ever set behind the authenticator's verdict for this connection",
			"calling w.Header(), WriteHeader, Write or handing w to any callee counts as an operation on w",
		},
	})
}

// ---------------------------------------------------------------------------
// context

type c02kinds uint8

const (
	c02M   c02kinds = 1 << iota // r.Method == "POST"
	c02H                        // r.Host == "hysteria"
	c02P                        // r.URL.Path == "/auth"
	c02All c02kinds = c02M | c02H | c02P
)

var c02kindNames = []string{"method", "host", "path"}
var c02kindExpr = []string{"r.Method", "r.Host", "r.URL.Path"}

type c02flowKey struct {
	fn *ssa.Function
	r  ssa.Value
}

type c02ctx struct {
	c *Check
	p *Prog
	a *srvAnchors

	w, r     *ssa.Parameter
	wIface   *types.Interface
	fMasq    *types.Var
	want     [3]string
	wantName [3]string
	status   int64
	hdrNames []string

	callers map[*ssa.Function][]ssa.Instruction // static call / go / defer sites and MakeClosure sites
	escaped map[*ssa.Function]bool

	flow     map[c02flowKey]map[*ssa.BasicBlock]c02kinds
	sumBusy  map[c02flowKey]bool
	mismatch map[string]bool
}

func c02isNamed(t types.Type, pkg, name string) bool {
	n, ok := t.(*types.Named)
	return ok && n.Obj().Pkg() != nil && n.Obj().Pkg().Path() == pkg && n.Obj().Name() == name
}

func c02isRequestPtr(t types.Type) bool {
	p, ok := t.(*types.Pointer)
	return ok && c02isNamed(p.Elem(), "net/http", "Request")
}

// c02same: operand o denotes value v (v itself, a conversion/spill of it, or
// the address of the cell v was spilled to).
func c02same(o, v ssa.Value) bool {
	if o == nil || v == nil {
		return false
	}
	if o == v || resolve(o) == v {
		return true
	}
	if al, ok := o.(*ssa.Alloc); ok {
		if s := singleStore(al); s != nil && (s == v || resolve(s) == v) {
			return true
		}
	}
	return false
}

// c02importedConst finds a constant of a dependency through the import graph
// of a repository package (dependencies are loaded from export data only).
func (x *c02ctx) importedConst(pkg, name string) *types.Const {
	if k := x.p.Const(pkg, name); k != nil {
		return k
	}
	for _, pp := range x.p.Pkgs {
		if pp.Types == nil {
			continue
		}
		for _, imp := range pp.Types.Imports() {
			if imp.Path() == pkg {
				if k, ok := imp.Scope().Lookup(name).(*types.Const); ok {
					return k
				}
			}
		}
	}
	return nil
}

func (x *c02ctx) implRW(t types.Type) bool {
	if t == nil || x.wIface == nil {
		return false
	}
	if _, isTuple := t.(*types.Tuple); isTuple {
		return false
	}
	return types.Implements(t, x.wIface)
}

func (x *c02ctx) buildCallers() {
	x.callers = map[*ssa.Function][]ssa.Instruction{}
	x.escaped = map[*ssa.Function]bool{}
	for fn := range x.p.AllFns {
		pk := fnPkg(fn)
		if pk == nil || !isRepoPath(pk.Pkg.Path()) {
			continue
		}
		allInstrs(fn, func(in ssa.Instruction) {
			var callVal ssa.Value
			if ci, ok := in.(ssa.CallInstruction); ok {
				callVal = ci.Common().Value
				if f := staticCallee(ci); f != nil {
					x.callers[f] = append(x.callers[f], in)
				}
			}
			if mc, ok := in.(*ssa.MakeClosure); ok {
				if f, ok := mc.Fn.(*ssa.Function); ok {
					x.callers[f] = append(x.callers[f], in)
				}
				return
			}
			for _, op := range in.Operands(nil) {
				if f, ok := (*op).(*ssa.Function); ok && ssa.Value(f) != callVal {
					x.escaped[f] = true
				}
			}
		})
	}
}

// G: the edges behind which a Hysteria response is legitimate.
func (x *c02ctx) G(cond ssa.Value, pol bool) bool {
	if x.a.authOKEdge(cond, pol) {
		return true
	}
	return pol && x.a.flag != nil && x.a.flagOnH && x.a.isFlagLoad(cond, x.a.serveHTTP)
}

// regionLabel distinguishes the sites of the handler by the accept edge they sit behind.
func (x *c02ctx) regionLabel(in ssa.Instruction) string {
	if in.Parent() != x.a.serveHTTP {
		return ""
	}
	switch {
	case guardedBy(in, x.a.authOKEdge):
		return "[on-accept]"
	case guardedBy(in, x.G):
		return "[already-authenticated]"
	}
	return "[unguarded]"
}

type c02loc struct {
	inG   bool
	kinds c02kinds
	why   string
}

// where: under which guards does the instruction execute (lifted through
// static callers / closure creation sites up to ServeHTTP).
func (x *c02ctx) where(in ssa.Instruction, depth int) c02loc {
	fn := in.Parent()
	if fn == x.a.serveHTTP {
		l := c02loc{inG: guardedBy(in, x.G), kinds: x.facts(fn, x.r)[in.Block()]}
		if !l.inG {
			l.why = "reachable in " + fnName(fn) + " without crossing the authenticator's accept edge or the already-authenticated edge"
		}
		return l
	}
	sites := x.callers[fn]
	if depth > 6 || len(sites) == 0 || x.escaped[fn] {
		return c02loc{why: fnName(fn) + " can run outside the accepted region of " + fnName(x.a.serveHTTP) + " (no static caller, used as a function value, or an entry point)"}
	}
	res := c02loc{inG: true, kinds: c02All}
	for _, s := range sites {
		l := x.where(s, depth+1)
		res.inG = res.inG && l.inG
		res.kinds &= l.kinds
		if l.why != "" && res.why == "" {
			res.why = "called at " + x.p.InstrPos(s) + ": " + l.why
		}
	}
	return res
}

// ---------------------------------------------------------------------------
// R4: must-dataflow of the three equalities

func (x *c02ctx) eqKind(b *ssa.BinOp, r ssa.Value) (c02kinds, bool, bool) {
	if b.Op != token.EQL && b.Op != token.NEQ {
		return 0, false, false
	}
	var s string
	var other ssa.Value
	if cs, ok := constString(b.Y); ok {
		s, other = cs, b.X
	} else if cs, ok := constString(b.X); ok {
		s, other = cs, b.Y
	} else {
		return 0, false, false
	}
	ap := accessPath(other)
	if ap.Root != r {
		return 0, false, false
	}
	fieldIs := func(f *types.Var, pkg, name string) bool {
		return f != nil && f.Name() == name && f.Pkg() != nil && f.Pkg().Path() == pkg
	}
	idx := -1
	switch {
	case len(ap.Fields) == 1 && fieldIs(ap.Fields[0], "net/http", "Method"):
		idx = 0
	case len(ap.Fields) == 1 && fieldIs(ap.Fields[0], "net/http", "Host"):
		idx = 1
	case len(ap.Fields) == 2 && fieldIs(ap.Fields[0], "net/http", "URL") && fieldIs(ap.Fields[1], "net/url", "Path"):
		idx = 2
	}
	if idx < 0 {
		return 0, false, false
	}
	if s != x.want[idx] {
		x.mismatch[fmt.Sprintf("%s is compared with %q, not with %s (%q)", c02kindExpr[idx], s, x.wantName[idx], x.want[idx])] = true
		return 0, false, false
	}
	return 1 << uint(idx), b.Op == token.EQL, true
}

// implied: the equalities known to hold when v has truth value pol.
func (x *c02ctx) implied(in map[*ssa.BasicBlock]c02kinds, v ssa.Value, pol bool, r ssa.Value, depth int) c02kinds {
	if depth > 8 {
		return 0
	}
	v, pol = stripNot(v, pol)
	switch t := v.(type) {
	case *ssa.BinOp:
		if k, isEq, ok := x.eqKind(t, r); ok {
			if isEq == pol {
				return k
			}
			return 0
		}
		// b == true / b != false on a bool
		if t.Op == token.EQL || t.Op == token.NEQ {
			for _, pr := range [][2]ssa.Value{{t.X, t.Y}, {t.Y, t.X}} {
				if k := constOf(pr[1]); k != nil && k.Value != nil && k.Value.Kind() == constant.Bool {
					same := (t.Op == token.EQL) == constant.BoolVal(k.Value)
					return x.implied(in, pr[0], pol == same, r, depth+1)
				}
			}
		}
		return 0
	case *ssa.Phi:
		res := c02All
		for i, e := range t.Edges {
			if isConstBool(e, !pol) {
				continue // this incoming edge cannot produce pol
			}
			o := x.edgeOut(in, t.Block().Preds[i], t.Block(), r)
			if !isConstBool(e, pol) {
				o |= x.implied(in, e, pol, r, depth+1)
			}
			res &= o
		}
		return res
	case *ssa.Call:
		f := staticCallee(t)
		if f == nil || !x.p.IsRepoFn(f) || len(f.Blocks) == 0 || f.Signature.Results().Len() != 1 || len(f.Params) != len(t.Call.Args) {
			return 0
		}
		for j, a := range t.Call.Args {
			if c02same(a, r) {
				return x.summary(f, f.Params[j], pol)
			}
		}
	}
	return 0
}

// summary: the equalities (about parameter rp) that hold whenever f returns pol.
func (x *c02ctx) summary(f *ssa.Function, rp ssa.Value, pol bool) c02kinds {
	key := c02flowKey{f, rp}
	if x.sumBusy[key] {
		return 0
	}
	x.sumBusy[key] = true
	defer func() { x.sumBusy[key] = false }()
	x.c.Saw(fnName(f))
	in := x.facts(f, rp)
	res := c02All
	n := 0
	bad := false
	allInstrs(f, func(i ssa.Instruction) {
		ret, ok := i.(*ssa.Return)
		if !ok || ret.Block() == f.Recover {
			return
		}
		rs := retResults(ret)
		if len(rs) != 1 {
			bad = true
			return
		}
		if isConstBool(rs[0], !pol) {
			return
		}
		n++
		o := in[ret.Block()]
		if !isConstBool(rs[0], pol) {
			o |= x.implied(in, rs[0], pol, rp, 1)
		}
		res &= o
	})
	if bad || n == 0 {
		return 0
	}
	return res
}

func (x *c02ctx) edgeOut(in map[*ssa.BasicBlock]c02kinds, pr, b *ssa.BasicBlock, r ssa.Value) c02kinds {
	res := c02All
	found := false
	for j, s := range pr.Succs {
		if s != b {
			continue
		}
		found = true
		v := in[pr]
		if cond, pol, ok := edgeFact(pr, j); ok {
			v |= x.implied(in, cond, pol, r, 0)
		}
		res &= v
	}
	if !found {
		return in[pr]
	}
	return res
}

// facts: for each block of fn the equalities established on every path from
// the entry to the block (intersection over predecessors of edge facts).
func (x *c02ctx) facts(fn *ssa.Function, r ssa.Value) map[*ssa.BasicBlock]c02kinds {
	key := c02flowKey{fn, r}
	if m, ok := x.flow[key]; ok {
		return m
	}
	in := map[*ssa.BasicBlock]c02kinds{}
	x.flow[key] = in
	if len(fn.Blocks) == 0 {
		return in
	}
	for _, b := range fn.Blocks {
		in[b] = c02All
	}
	in[fn.Blocks[0]] = 0
	if fn.Recover != nil {
		in[fn.Recover] = 0
	}
	for changed, rounds := true, 0; changed && rounds < 64; rounds++ {
		changed = false
		for _, b := range fn.Blocks {
			if b == fn.Blocks[0] || b == fn.Recover {
				continue
			}
			v := c02All
			for _, pr := range b.Preds {
				v &= x.edgeOut(in, pr, b, r)
			}
			if v != in[b] {
				in[b] = v
				changed = true
			}
		}
	}
	// unreachable blocks carry no information
	reach := blocksReachableAvoidingEdges(fn, func(ssa.Value, bool) bool { return false })
	for _, b := range fn.Blocks {
		if !reach[b] && b != fn.Recover {
			in[b] = 0
		}
	}
	return in
}

// ---------------------------------------------------------------------------
// R1 / R3: discipline on the ResponseWriter

func (x *c02ctx) isMasqLoad(v ssa.Value) bool { return isLoadOfField(v, x.fMasq) }

func (x *c02ctx) masqNilEdge(cond ssa.Value, pol bool) bool {
	v, isNil, ok := nilTest(cond, pol)
	return ok && isNil && x.isMasqLoad(v)
}

// nilGuarded: the instruction runs only when Config.MasqHandler was found nil,
// in its own function or at every static call site of it.
func (x *c02ctx) nilGuarded(in ssa.Instruction, depth int) bool {
	if guardedBy(in, x.masqNilEdge) {
		return true
	}
	fn := in.Parent()
	sites := x.callers[fn]
	if fn == x.a.serveHTTP || depth > 4 || len(sites) == 0 || x.escaped[fn] {
		return false
	}
	for _, s := range sites {
		if !x.nilGuarded(s, depth+1) {
			return false
		}
	}
	return true
}

func c02isNotFoundHandler(v ssa.Value) bool {
	v = resolve(v)
	if call, ok := v.(*ssa.Call); ok {
		return calleeIs(call, "net/http", "NotFoundHandler")
	}
	if f, ok := v.(*ssa.Function); ok {
		pk := fnPkg(f)
		return pk != nil && pk.Pkg.Path() == "net/http" && f.Name() == "NotFound" && f.Signature.Recv() == nil
	}
	return false
}

// isMasqValue: v is Config.MasqHandler, or a φ that substitutes the stock 404
// handler exactly on the MasqHandler==nil edge.
func (x *c02ctx) isMasqValue(v ssa.Value) bool {
	v = resolve(v)
	if x.isMasqLoad(v) {
		return true
	}
	ph, ok := v.(*ssa.Phi)
	if !ok {
		return false
	}
	nLoad := 0
	for i, e := range ph.Edges {
		switch {
		case x.isMasqLoad(e):
			nLoad++
		case c02isNotFoundHandler(e):
			if !srcGuarded(ph.Block().Preds[i], ph.Block(), x.masqNilEdge) {
				return false
			}
		default:
			return false
		}
	}
	return nLoad > 0
}

type c02finding struct {
	what, pos, msg string
}

type c02deleg struct {
	call   *ssa.Call
	kind   string        // sink name or callee name
	callee *ssa.Function // candidate delegate (nil for sinks)
}

// sinkShape: the call is an invocation of the configured masquerade handler or
// of http.NotFound, regardless of its arguments.
func (x *c02ctx) sinkShape(ci ssa.CallInstruction) (string, []ssa.Value, bool) {
	cc := ci.Common()
	if cc.IsInvoke() {
		if cc.Method.Name() == "ServeHTTP" && len(cc.Args) == 2 && x.isMasqValue(cc.Value) {
			return "Config." + x.fMasq.Name() + ".ServeHTTP", cc.Args, true
		}
		return "", nil, false
	}
	if calleeIs(ci, "net/http", "NotFound") && len(cc.Args) == 2 {
		return "http.NotFound", cc.Args, true
	}
	return "", nil, false
}

// delegation: is `in` the hand-off of exactly (w, r) to a sink or to a
// candidate delegate?
func (x *c02ctx) delegation(in ssa.Instruction, w, r ssa.Value) (c02deleg, bool) {
	call, ok := in.(*ssa.Call)
	if !ok {
		return c02deleg{}, false
	}
	if name, args, ok := x.sinkShape(call); ok {
		if c02same(args[0], w) && c02same(args[1], r) {
			return c02deleg{call: call, kind: name}, true
		}
		return c02deleg{}, false
	}
	f := staticCallee(call)
	if f == nil || !x.p.IsRepoFn(f) || len(f.Blocks) == 0 || len(f.Params) != len(call.Call.Args) {
		return c02deleg{}, false
	}
	iw, ir, nw := -1, -1, 0
	for j, a := range call.Call.Args {
		if c02same(a, w) {
			iw = j
			nw++
		}
		if c02same(a, r) {
			ir = j
		}
	}
	if nw != 1 || ir < 0 || !x.implRW(f.Params[iw].Type()) || !c02isRequestPtr(f.Params[ir].Type()) {
		return c02deleg{}, false
	}
	return c02deleg{call: call, kind: fnName(f), callee: f}, true
}

// wUses: the instructions of fn that operate on w (calls on/with it, stores,
// closure captures, type assertions); pure forwarders are skipped.
func c02wUses(fn *ssa.Function, w ssa.Value) []ssa.Instruction {
	var out []ssa.Instruction
	allInstrs(fn, func(in ssa.Instruction) {
		switch t := in.(type) {
		case *ssa.DebugRef:
			return
		case *ssa.Store:
			if al, ok := t.Addr.(*ssa.Alloc); ok && t.Val == w && singleStore(al) == w {
				return // the parameter spill
			}
		case *ssa.UnOp:
			if t.Op == token.MUL {
				return // a load of the spilled parameter: its consumer is the use
			}
		}
		if v, ok := in.(ssa.Value); ok {
			switch in.(type) {
			case *ssa.ChangeInterface, *ssa.ChangeType, *ssa.MakeInterface:
				if resolve(v) == w {
					return
				}
			}
		}
		for _, op := range in.Operands(nil) {
			if c02same(*op, w) {
				out = append(out, in)
				return
			}
		}
	})
	return out
}

func c02describe(in ssa.Instruction) string {
	switch t := in.(type) {
	case ssa.CallInstruction:
		cc := t.Common()
		pre := ""
		switch in.(type) {
		case *ssa.Go:
			pre = "go "
		case *ssa.Defer:
			pre = "defer "
		}
		if cc.IsInvoke() {
			return pre + "call of ." + cc.Method.Name() + "()"
		}
		if f := cc.StaticCallee(); f != nil {
			return pre + "call of " + fnName(f)
		}
		return pre + "dynamic call"
	case *ssa.Store:
		return "store"
	case *ssa.MakeClosure:
		return "capture by a closure"
	case *ssa.TypeAssert:
		return "type assertion"
	}
	return strings.TrimPrefix(fmt.Sprintf("%T", in), "*ssa.")
}

// discipline examines how fn treats the (w, r) pair it received.  inG == nil
// means "no accepted region" (a pure delegate).
func (x *c02ctx) discipline(fn *ssa.Function, w, r ssa.Value, inG func(ssa.Instruction) bool) (delegs []c02deleg, hyst []ssa.Instruction, bad []c02finding) {
	p := x.p
	uses := c02wUses(fn, w)
	isUse := map[ssa.Instruction]bool{}
	isDeleg := map[ssa.Instruction]bool{}
	for _, u := range uses {
		isUse[u] = true
	}
	for _, u := range uses {
		if d, ok := x.delegation(u, w, r); ok {
			delegs = append(delegs, d)
			isDeleg[u] = true
			continue
		}
		if inG != nil && inG(u) {
			hyst = append(hyst, u)
			continue
		}
		bad = append(bad, c02finding{"other-use", p.InstrPos(u), "the ResponseWriter is operated on (" + c02describe(u) + ") outside the accepted region and not as the hand-off of the unchanged (w, r) to the masquerade delegate"})
	}
	for _, d := range delegs {
		after := map[ssa.Instruction]bool{}
		for _, in := range reachFrom(fn, d.call, nil, nil) {
			after[in] = true
		}
		for _, u := range uses {
			if after[u] {
				bad = append(bad, c02finding{"after-handoff", p.InstrPos(u), "after the hand-off to " + d.kind + " at " + p.InstrPos(d.call) + " the ResponseWriter is used again (" + c02describe(u) + "): the peer does not see the delegate's response alone"})
			}
		}
	}
	for _, u := range uses {
		if isDeleg[u] {
			continue
		}
		for _, in := range reachFrom(fn, u, nil, nil) {
			if isDeleg[in] {
				bad = append(bad, c02finding{"before-handoff", p.InstrPos(u), "the ResponseWriter was already operated on (" + c02describe(u) + ") on a path that then hands the request to the masquerade delegate at " + p.InstrPos(in)})
				break
			}
		}
	}
	for _, ex := range exitsReachableAvoiding(fn, nil, func(in ssa.Instruction) bool { return isUse[in] }) {
		bad = append(bad, c02finding{"no-response", p.InstrPos(ex), "a path returns without handing the request to the masquerade delegate (and without answering behind the verdict): the peer gets the HTTP/3 server's empty default response"})
	}
	allInstrs(fn, func(in ssa.Instruction) {
		switch t := in.(type) {
		case *ssa.Store:
			ap := accessPath(t.Addr)
			if ap.Root == r && len(ap.Fields) > 0 && !(inG != nil && inG(in)) {
				bad = append(bad, c02finding{"request-mutated", p.InstrPos(in), "the request is modified (" + ap.FieldNames() + ") before it is handed to the masquerade delegate"})
			}
		case *ssa.MapUpdate:
			ap := accessPath(t.Map)
			if ap.Root == r && len(ap.Fields) > 0 && !(inG != nil && inG(in)) {
				bad = append(bad, c02finding{"request-mutated", p.InstrPos(in), "the request is modified (" + ap.FieldNames() + ") before it is handed to the masquerade delegate"})
			}
		case ssa.CallInstruction:
			if isDeleg[in] || (inG != nil && inG(in)) {
				return
			}
			// r.Header.Del / Set / Add (and the other mutators of a header map reached from r)
			if g := staticCallee(t); g != nil && len(t.Common().Args) > 0 {
				switch g.String() {
				case "(net/http.Header).Del", "(net/http.Header).Set", "(net/http.Header).Add",
					"(net/textproto.MIMEHeader).Del", "(net/textproto.MIMEHeader).Set", "(net/textproto.MIMEHeader).Add":
					if ap := accessPath(t.Common().Args[0]); ap.Root == r && len(ap.Fields) > 0 {
						bad = append(bad, c02finding{"request-mutated", p.InstrPos(in), "the request is modified (" + ap.FieldNames() + " through " + g.Name() + ") before it is handed to the masquerade delegate: the delegate does not answer the request the peer sent"})
					}
				}
			}
			if name, _, ok := x.sinkShape(t); ok {
				bad = append(bad, c02finding{"foreign-writer", p.InstrPos(in), name + " is not given exactly the ResponseWriter and Request this function received (wrapped, replaced, or started with go/defer)"})
			}
		}
	})
	// the 404 fallback only when no handler is configured
	for _, d := range delegs {
		if d.kind == "http.NotFound" && !x.nilGuarded(d.call, 0) {
			bad = append(bad, c02finding{"fallback-guard", p.InstrPos(d.call), "http.NotFound answers on a path where Config." + x.fMasq.Name() + " may be non-nil: the configured masquerade handler is bypassed"})
		}
	}
	return
}

func c02report(c *Check, prefix, rule string, classes []string, pos string, bad []c02finding) {
	by := map[string][]c02finding{}
	for _, b := range bad {
		by[b.what] = append(by[b.what], b)
	}
	for _, cl := range classes {
		fs := by[cl]
		if len(fs) == 0 {
			c.OK(prefix+":"+cl, rule, pos)
			continue
		}
		var msgs []string
		for _, f := range fs {
			msgs = append(msgs, f.msg+" ["+f.pos+"]")
		}
		c.Bad(prefix+":"+cl, rule, fs[0].pos, strings.Join(msgs, "; "))
	}
}

// ---------------------------------------------------------------------------
// R2: forward flow of ResponseWriter.Header()

type c02hdrSite struct {
	outer ssa.Instruction // consuming instruction in the function that called Header()
	write ssa.Instruction
	name  string
}

func (x *c02ctx) hyName(key ssa.Value) string {
	s, ok := constString(key)
	if !ok {
		return ""
	}
	for _, n := range x.hdrNames {
		if strings.EqualFold(s, n) {
			return n
		}
	}
	return ""
}

func (x *c02ctx) traceHeader(v ssa.Value, outer ssa.Instruction, depth int, seen map[ssa.Value]bool, out *[]c02hdrSite) {
	if v == nil || seen[v] || depth > 6 {
		return
	}
	seen[v] = true
	refs := v.Referrers()
	if refs == nil {
		return
	}
	for _, ref := range *refs {
		o := outer
		if o == nil {
			o = ref
		}
		switch t := ref.(type) {
		case *ssa.MapUpdate:
			if t.Map == v {
				if n := x.hyName(t.Key); n != "" {
					*out = append(*out, c02hdrSite{o, ref, n})
				}
			}
		case ssa.CallInstruction:
			cc := t.Common()
			f := cc.StaticCallee()
			if f == nil {
				continue
			}
			if pk := fnPkg(f); pk != nil && (pk.Pkg.Path() == "net/http" || pk.Pkg.Path() == "net/textproto") {
				if (f.Name() == "Set" || f.Name() == "Add") && f.Signature.Recv() != nil && len(cc.Args) >= 2 && cc.Args[0] == v {
					if n := x.hyName(cc.Args[1]); n != "" {
						*out = append(*out, c02hdrSite{o, ref, n})
					}
				}
				continue
			}
			if x.p.IsRepoFn(f) && len(f.Params) == len(cc.Args) {
				for j, a := range cc.Args {
					if a == v {
						x.traceHeader(f.Params[j], o, depth+1, seen, out)
					}
				}
			}
		case *ssa.ChangeType:
			x.traceHeader(t, outer, depth, seen, out)
		case *ssa.Phi:
			x.traceHeader(t, outer, depth, seen, out)
		case *ssa.Store:
			if al, ok := t.Addr.(*ssa.Alloc); ok && t.Val == v {
				for _, r2 := range *al.Referrers() {
					if u, ok := r2.(*ssa.UnOp); ok && u.Op == token.MUL {
						x.traceHeader(u, outer, depth, seen, out)
					}
				}
			}
		}
	}
}

func (x *c02ctx) mayBeStatus(v ssa.Value) bool {
	b, ok := v.Type().Underlying().(*types.Basic)
	if !ok || b.Info()&types.IsInteger == 0 {
		return false
	}
	v = resolve(v)
	switch v.(type) {
	case *ssa.Const, *ssa.Phi:
	default:
		return false
	}
	for d := range deps(v, depOpts{}) {
		if k, ok := d.(*ssa.Const); ok && k.Value != nil && k.Value.Kind() == constant.Int {
			if n, ok := constant.Int64Val(k.Value); ok && n == x.status {
				return true
			}
		}
	}
	return false
}

// ---------------------------------------------------------------------------
// PROTOCOL.md (specification) tokens

// c02specBlocks returns the pseudo-header tokens of the fenced blocks that
// hold the authentication request (":method") and response (":status").
func c02specBlocks() (req, resp map[string]string, err error) {
	b, err := os.ReadFile(filepath.Join(repoRoot, "PROTOCOL.md"))
	if err != nil {
		return nil, nil, err
	}
	var cur map[string]string
	inFence := false
	for _, ln := range strings.Split(string(b), "\n") {
		ln = strings.TrimSpace(ln)
		if strings.HasPrefix(ln, "```") {
			if inFence && cur != nil {
				if _, ok := cur[":method"]; ok && req == nil {
					req = cur
				}
				if _, ok := cur[":status"]; ok && resp == nil {
					resp = cur
				}
			}
			inFence = !inFence
			cur = map[string]string{}
			continue
		}
		if !inFence || !strings.HasPrefix(ln, ":") {
			continue
		}
		if i := strings.Index(ln[1:], ":"); i > 0 {
			cur[ln[:i+1]] = strings.TrimSpace(ln[i+2:])
		}
	}
	if req == nil || resp == nil {
		return nil, nil, fmt.Errorf("request/response block not found")
	}
	return req, resp, nil
}

// ---------------------------------------------------------------------------

func checkC02(c *Check) {
	p := c.P
	a := c.serverAnchors()
	if !a.ok {
		return
	}
	x := &c02ctx{c: c, p: p, a: a, flow: map[c02flowKey]map[*ssa.BasicBlock]c02kinds{}, sumBusy: map[c02flowKey]bool{}, mismatch: map[string]bool{}}
	for _, pr := range a.serveHTTP.Params {
		switch {
		case c02isNamed(pr.Type(), "net/http", "ResponseWriter"):
			x.w = pr
		case c02isRequestPtr(pr.Type()):
			x.r = pr
		}
	}
	if x.w == nil || x.r == nil {
		c.Unres("http.ResponseWriter / *http.Request parameters of " + fnName(a.serveHTTP))
		return
	}
	x.wIface, _ = x.w.Type().Underlying().(*types.Interface)
	// Config.MasqHandler: the http.Handler field of the server configuration
	if cfg := p.Named(pServer, "Config"); cfg != nil {
		if st, ok := cfg.Underlying().(*types.Struct); ok {
			n := 0
			for i := 0; i < st.NumFields(); i++ {
				if c02isNamed(st.Field(i).Type(), "net/http", "Handler") {
					x.fMasq = st.Field(i)
					n++
				}
			}
			if n != 1 {
				x.fMasq = p.Field(pServer, "Config", "MasqHandler")
			}
		}
	}
	if x.fMasq == nil || x.wIface == nil {
		c.Unres("core/server Config field of type http.Handler (masquerade handler)")
		return
	}
	// protocol constants
	type kc struct {
		pkg, name string
	}
	getStr := func(k kc) (string, bool) {
		co := x.importedConst(k.pkg, k.name)
		if co == nil || co.Val().Kind() != constant.String {
			c.Unres("constant " + k.pkg + "." + k.name)
			return "", false
		}
		return constant.StringVal(co.Val()), true
	}
	okc := true
	for i, k := range []kc{{"net/http", "MethodPost"}, {pProtocol, "URLHost"}, {pProtocol, "URLPath"}} {
		s, ok := getStr(k)
		okc = okc && ok
		x.want[i] = s
		x.wantName[i] = k.name
	}
	for _, n := range []string{"ResponseHeaderUDPEnabled", "CommonHeaderCCRX", "CommonHeaderPadding", "RequestHeaderAuth"} {
		s, ok := getStr(kc{pProtocol, n})
		okc = okc && ok
		x.hdrNames = append(x.hdrNames, s)
	}
	if co := p.Const(pProtocol, "StatusAuthOK"); co != nil && co.Val().Kind() == constant.Int {
		x.status, _ = constant.Int64Val(co.Val())
	} else {
		c.Unres("constant protocol.StatusAuthOK")
		okc = false
	}
	if !okc {
		return
	}
	x.buildCallers()
	c.Saw(fnName(a.serveHTTP))

	// ---- R1: ServeHTTP's treatment of (w, r)
	const r1 = "C02.R1 in the handler every use of the ResponseWriter is behind the accept / already-authenticated edge, or is the single hand-off of the unchanged (w, r) to the masquerade delegate with no other operation on w before or after it; every return is preceded by a response action; the request is not written to before the hand-off"
	inG := func(in ssa.Instruction) bool { return guardedBy(in, x.G) }
	delegs, hyst, bad := x.discipline(a.serveHTTP, x.w, x.r, inG)
	sName := fnName(a.serveHTTP)
	var r3bad []c02finding
	var r1bad []c02finding
	for _, b := range bad {
		if b.what == "fallback-guard" {
			r3bad = append(r3bad, b)
		} else {
			r1bad = append(r1bad, b)
		}
	}
	c02report(c, "C02.R1:"+sName, r1, []string{"other-use", "after-handoff", "before-handoff", "no-response", "request-mutated", "foreign-writer"}, p.Pos(a.serveHTTP.Pos()), r1bad)
	notOK := func(cond ssa.Value, pol bool) bool { return !pol && a.authOK != nil && resolve(cond) == a.authOK }
	labels := map[string]int{}
	for _, d := range delegs {
		label := "not-an-auth-request"
		if guardedBy(d.call, notOK) {
			label = "credentials-rejected"
		}
		labels[label]++
		c.OK("C02.R1:handoff:"+label+"→"+d.kind, r1, p.InstrPos(d.call))
	}
	c.Floor("C02.R1:handoff", len(delegs), 2)
	c.Floor("C02.R1:handoff:credentials-rejected", labels["credentials-rejected"], 1)
	c.Floor("C02.R1:handoff:not-an-auth-request", labels["not-an-auth-request"], 1)

	// ---- R3: every delegate is transparent
	const r3 = "C02.R3 a masquerade delegate uses the ResponseWriter only to pass its own unchanged (w, r) to Config.MasqHandler.ServeHTTP, http.NotFound or a further delegate, exactly once on every path; http.NotFound only over the MasqHandler==nil edge"
	r3classes := []string{"other-use", "after-handoff", "no-response", "request-mutated", "foreign-writer", "fallback-guard"}
	nSinks := 0
	seenD := map[*ssa.Function]bool{}
	var queue []*ssa.Function
	push := func(ds []c02deleg) {
		for _, d := range ds {
			if d.callee == nil {
				nSinks++
			} else if !seenD[d.callee] {
				seenD[d.callee] = true
				queue = append(queue, d.callee)
			}
		}
	}
	push(delegs)
	if len(r3bad) > 0 || nSinks > 0 {
		c02report(c, "C02.R3:"+sName, r3, []string{"fallback-guard"}, p.Pos(a.serveHTTP.Pos()), r3bad)
	}
	nDeleg := 0
	for len(queue) > 0 {
		d := queue[0]
		queue = queue[1:]
		nDeleg++
		c.Saw(fnName(d))
		var dw, dr ssa.Value
		for _, pr := range d.Params {
			if x.implRW(pr.Type()) && dw == nil {
				dw = pr
			} else if c02isRequestPtr(pr.Type()) && dr == nil {
				dr = pr
			}
		}
		ds, _, dbad := x.discipline(d, dw, dr, nil)
		for i := range dbad {
			if dbad[i].what == "before-handoff" {
				dbad[i].what = "other-use"
			}
		}
		c02report(c, "C02.R3:"+fnName(d), r3, r3classes, p.Pos(d.Pos()), dbad)
		push(ds)
	}
	c.Floor("C02.R3:delegates-or-inline-sinks", nDeleg+nSinks, 1)
	c.Floor("C02.R3:sinks", nSinks, 1)

	// ---- R2: Hysteria status / headers only behind the verdict
	const r2 = "C02.R2 the status StatusAuthOK is passed to a ResponseWriter, and a Hysteria header name is written into a header map obtained from ResponseWriter.Header(), only behind the authenticator's accept edge or the already-authenticated edge of the per-connection handler"
	type target struct {
		label string
		in    ssa.Instruction
	}
	var targets []target
	targets = append(targets, target{"auth-call", a.authCall})
	nStatus, nHdrOuter := 0, 0
	for _, fn := range p.RepoFns {
		allInstrs(fn, func(in ssa.Instruction) {
			ci, ok := in.(ssa.CallInstruction)
			if !ok {
				return
			}
			cc := ci.Common()
			// status
			has := false
			for _, arg := range cc.Args {
				if x.mayBeStatus(arg) {
					has = true
				}
			}
			if has {
				rw := cc.IsInvoke() && x.implRW(cc.Value.Type())
				for _, arg := range cc.Args {
					if x.implRW(arg.Type()) {
						rw = true
					}
				}
				if rw {
					nStatus++
					c.Saw(fnName(fn))
					l := x.where(in, 0)
					c.Req(l.inG, "C02.R2:status:"+fnName(fn)+x.regionLabel(in), r2, p.InstrPos(in), fmt.Sprintf("status %d (StatusAuthOK) is sent by %s outside the accepted region: %s", x.status, c02describe(in), l.why))
					targets = append(targets, target{"response-action:" + fnName(fn) + x.regionLabel(in), in})
				}
			}
			// Header() of a ResponseWriter
			recv, isHdr := methodCallNamed(ci, "Header")
			if !isHdr || !x.implRW(recv.Type()) || ci.Value() == nil {
				return
			}
			var sites []c02hdrSite
			x.traceHeader(ci.Value(), nil, 0, map[ssa.Value]bool{}, &sites)
			outers := map[ssa.Instruction]bool{}
			for _, s := range sites {
				l := x.where(s.outer, 0)
				via := ""
				c.Saw(fnName(fn))
				c.Saw(fnName(s.write.Parent()))
				if s.write.Parent() != fn {
					via = " (written in " + fnName(s.write.Parent()) + ")"
				}
				c.Req(l.inG, "C02.R2:header:"+fnName(fn)+x.regionLabel(s.outer)+":"+s.name, r2, p.InstrPos(s.outer), "response header "+s.name+via+" is set outside the accepted region: "+l.why)
				if !outers[s.outer] {
					outers[s.outer] = true
					nHdrOuter++
					targets = append(targets, target{"response-action:" + fnName(fn) + x.regionLabel(s.outer), s.outer})
				}
			}
		})
	}
	// (two sites each on the pinned tree; one when the response is written by a shared helper)
	c.Floor("C02.R2:status", nStatus, 1)
	c.Floor("C02.R2:header", nHdrOuter, 1)
	// any other operation on w behind the accept edges is a response action too
	{
		have := map[ssa.Instruction]bool{}
		for _, t := range targets {
			have[t.in] = true
		}
		for _, u := range hyst {
			if !have[u] {
				targets = append(targets, target{"response-action:" + sName + x.regionLabel(u), u})
			}
		}
	}

	// ---- R4: the three equalities
	const r4 = "C02.R4 the Authenticate call and every Hysteria response action are reachable only after r.Method, r.Host and r.URL.Path each compared == to constants equal to http.MethodPost, protocol.URLHost, protocol.URLPath; those constants and StatusAuthOK agree with the request/response blocks of PROTOCOL.md"
	// evaluate all targets first so that constant mismatches are collected
	locs := make([]c02loc, len(targets))
	for i, t := range targets {
		locs[i] = x.where(t.in, 0)
	}
	var mm []string
	for s := range x.mismatch {
		mm = append(mm, s)
	}
	sort.Strings(mm)
	mmText := ""
	if len(mm) > 0 {
		mmText = "; " + strings.Join(mm, "; ")
	}
	for i, t := range targets {
		for k := 0; k < 3; k++ {
			c.Req(locs[i].kinds&(1<<uint(k)) != 0, "C02.R4:"+t.label+":"+c02kindNames[k], r4, p.InstrPos(t.in),
				fmt.Sprintf("%s is reachable on a path that has not established %s == %q (conjunct missing, weakened to a prefix/fold/other field, or joined by ||)%s", c02describe(t.in), c02kindExpr[k], x.want[k], mmText))
		}
	}
	c.Floor("C02.R4:targets", len(targets), 3)
	// specification tokens
	if req, resp, err := c02specBlocks(); err != nil {
		c.Unres("PROTOCOL.md authentication request/response blocks: " + err.Error())
	} else {
		pos := "PROTOCOL.md"
		c.Req(req[":method"] == x.want[0], "C02.R4:spec:method", r4, pos, fmt.Sprintf("http.MethodPost=%q but the specification's request block says :method: %s", x.want[0], req[":method"]))
		c.Req(req[":host"] == x.want[1], "C02.R4:spec:host", r4, pos, fmt.Sprintf("protocol.URLHost=%q but the specification's request block says :host: %s", x.want[1], req[":host"]))
		c.Req(req[":path"] == x.want[2], "C02.R4:spec:path", r4, pos, fmt.Sprintf("protocol.URLPath=%q but the specification's request block says :path: %s", x.want[2], req[":path"]))
		st := ""
		if f := strings.Fields(resp[":status"]); len(f) > 0 {
			st = f[0]
		}
		c.Req(st == strconv.FormatInt(x.status, 10), "C02.R4:spec:status", r4, pos, fmt.Sprintf("protocol.StatusAuthOK=%d but the specification's response block says :status: %s", x.status, resp[":status"]))
	}
}

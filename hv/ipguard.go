package main

import (
	"golang.org/x/tools/go/ssa"
)

// Inter-procedural companions of guardedBy, for rules whose guards are stated
// over fields (not over SSA value identity) and therefore keep their meaning
// when a maintainer cuts the guarded code out into a helper.

// helperGroup: root plus the repository functions it reaches through static
// calls (depth <= 3) that keep() accepts -- "the code of root, however it was
// split up".
func helperGroup(p *Prog, root *ssa.Function, keep func(*ssa.Function) bool) []*ssa.Function {
	out := []*ssa.Function{root}
	seen := map[*ssa.Function]bool{root: true}
	var walk func(fn *ssa.Function, d int)
	walk = func(fn *ssa.Function, d int) {
		if d > 3 {
			return
		}
		allInstrs(fn, func(in ssa.Instruction) {
			ci, ok := in.(ssa.CallInstruction)
			if !ok {
				return
			}
			cal := staticCallee(ci)
			if cal == nil || seen[cal] || !p.IsRepoFn(cal) || len(cal.Blocks) == 0 || !keep(cal) {
				return
			}
			seen[cal] = true
			out = append(out, cal)
			walk(cal, d+1)
		})
	}
	walk(root, 0)
	return out
}

// visibleCallSites: every call site of fn, provided all of them are static
// calls inside the repository and fn is never used as a value; ok=false when
// some caller cannot be seen.
func visibleCallSites(p *Prog, fn *ssa.Function) ([]ssa.CallInstruction, bool) {
	if fn.Parent() != nil || fn.Object() == nil {
		return nil, false
	}
	pk := fnPkg(fn)
	if pk == nil {
		return nil, false
	}
	if fn.Object().Exported() {
		return nil, false
	}
	node := p.VTA().Nodes[fn]
	if node == nil || len(node.In) == 0 {
		return nil, false
	}
	var out []ssa.CallInstruction
	for _, e := range node.In {
		if e.Caller != nil && e.Caller.Func != nil && e.Caller.Func.Synthetic != "" && len(e.Caller.In) == 0 {
			continue // promoted-method / bound-method wrapper that nothing calls
		}
		if e.Site == nil || e.Caller == nil || e.Caller.Func == nil || !p.IsRepoFn(e.Caller.Func) {
			return nil, false
		}
		if staticCallee(e.Site) != fn {
			return nil, false // reached through a function value or an interface
		}
		out = append(out, e.Site)
	}
	return out, true
}

// guardedByIP: every entry→target path crosses an accepted edge inside the
// target's own function, or the function is an unexported helper with visible
// call sites and every one of those calls is guarded in turn (depth <= 2).
func guardedByIP(p *Prog, target ssa.Instruction, depth int, pred EdgePred) bool {
	if guardedBy(target, pred) {
		return true
	}
	if depth >= 2 {
		return false
	}
	sites, ok := visibleCallSites(p, target.Parent())
	if !ok {
		return false
	}
	for _, s := range sites {
		if s.Parent() == target.Parent() {
			return false
		}
		if !guardedByIP(p, s, depth+1, pred) {
			return false
		}
	}
	return true
}

func allInstrsOf(fns []*ssa.Function, f func(ssa.Instruction)) {
	for _, fn := range fns {
		allInstrs(fn, f)
	}
}

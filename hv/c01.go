package main

import (
	"fmt"
	"go/types"
	"strings"

	"golang.org/x/tools/go/callgraph"
	"golang.org/x/tools/go/ssa"
)

func init() {
	register(&propDef{
		ID:        "C01",
		Run:       checkC01,
		Technique: "static analysis: SSA edge-guard reachability + field-writer census + lockset + VTA call-graph gating (go/ssa, go/callgraph/vta)",
		Explanation: "Decides, for every path of the code (not for sampled runs), the structural necessary conditions of 'no proxying before authentication on the same connection': " +
			"R1 every store to the per-connection gate flag is the constant true, inside the handler's ServeHTTP, behind the true-edge of Authenticator.Authenticate called on this handler's config/conn, under the auth mutex; " +
			"R2 the Authenticate call and the identity store are only reachable over the flag==false edge (no re-evaluation, no revocation); " +
			"R3 the flag is a field of the per-connection handler, one handler is allocated per accepted connection and the dispatcher reads the flag through its own receiver; " +
			"R4 every function containing an Outbound.TCP/UDP/CheckUDP call site is reachable in the VTA call graph only through a gate edge (dispatcher flag true-edge or the auth-ok true-edge); " +
			"R5 before the gate the stream dispatcher performs no operation on the stream.",
		NotDecided: []string{
			"that quic-go's HTTP/3 server invokes the handler/dispatcher of the same connection (library behaviour)",
			"the unsynchronised read of the flag in the dispatcher (Go memory model)",
			"'relays no payload' beyond 'no route to an outbound call or to a stream operation'",
		},
		Assumptions: []string{
			"third-party code reaches core/server only through http3.Server.Handler and http3.Server.StreamDispatcher",
			"VTA call graph over-approximates dynamic calls through func values and interfaces inside the repository",
		},
	})
}

// outboundSites lists invoke sites of server.Outbound methods in core/server.
func outboundSites(p *Prog) []ssa.CallInstruction {
	out := p.Named(pServer, "Outbound")
	var sites []ssa.CallInstruction
	if out == nil {
		return nil
	}
	for _, fn := range p.RepoFns {
		if pk := fnPkg(fn); pk == nil || pk.Pkg.Path() != pServer {
			continue
		}
		for _, ci := range callsIn(fn, func(ci ssa.CallInstruction) bool {
			cc := ci.Common()
			if !cc.IsInvoke() {
				return false
			}
			return types.Identical(cc.Value.Type(), out)
		}) {
			sites = append(sites, ci)
		}
	}
	return sites
}

type gating struct {
	p      *Prog
	a      *srvAnchors
	cg     *callgraph.Graph
	memo   map[*ssa.Function]int // 1 gated, 2 ungated, 3 in progress
	reason map[*ssa.Function]string
}

func (g *gating) siteGated(site ssa.Instruction) bool {
	fn := site.Parent()
	root := fn
	for root.Parent() != nil {
		root = root.Parent()
	}
	if fn == g.a.serveHTTP {
		return guardedBy(site, g.a.authOKEdge)
	}
	if fn == g.a.dispatcher {
		return guardedBy(site, func(cond ssa.Value, pol bool) bool { return pol && g.a.flagOnH && g.a.isFlagLoad(cond, g.a.dispatcher) })
	}
	return false
}

func (g *gating) gated(fn *ssa.Function) bool {
	switch g.memo[fn] {
	case 1, 3:
		return true
	case 2:
		return false
	}
	g.memo[fn] = 3
	node := g.cg.Nodes[fn]
	n := 0
	ok := true
	if node != nil {
		for _, e := range node.In {
			if e.Caller == nil || e.Caller.Func == nil || !g.p.IsRepoFn(e.Caller.Func) {
				continue
			}
			n++
			if e.Site != nil && g.siteGated(e.Site) {
				continue
			}
			if !g.gated(e.Caller.Func) {
				ok = false
				g.reason[fn] = fmt.Sprintf("%s <- %s at %s%s", fnName(fn), fnName(e.Caller.Func), g.p.InstrPos(e.Site), suffix(g.reason[e.Caller.Func]))
				break
			}
		}
	}
	if n == 0 {
		ok = false
		g.reason[fn] = fnName(fn) + " has no caller inside the repository (entry point)"
	}
	if ok {
		g.memo[fn] = 1
	} else {
		g.memo[fn] = 2
	}
	return ok
}

func suffix(s string) string {
	if s == "" {
		return ""
	}
	return "; " + s
}

func checkC01(c *Check) {
	p := c.P
	a := c.serverAnchors()
	if !a.ok {
		return
	}
	la := p.Locks()
	c.Saw(fnName(a.serveHTTP))
	c.Saw(fnName(a.dispatcher))
	c.Saw(fnName(a.handleClient))

	// ---- R3: the flag is per connection
	const r3 = "C01.R3 the gate flag is a field of the per-connection handler; one handler per accepted connection; the dispatcher reads it through its own receiver"
	if a.flag == nil {
		c.Bad("C01.R3:flag", r3, p.Pos(a.dispatcher.Pos()), "the stream dispatcher tests no bool field at all: no authentication gate")
		return
	}
	c.Req(a.flagOnH, "C01.R3:flag-owner", r3, p.Pos(a.flag.Pos()),
		fmt.Sprintf("the dispatcher's gate field %s is not a field of the per-connection handler %s (acceptance on one connection would authorise others)", a.flag.Name(), a.H.Obj().Name()))
	gateOK := false
	for _, b := range a.dispatcher.Blocks {
		for i := range b.Succs {
			if cond, pol, ok := edgeFact(b, i); ok && pol && a.isFlagLoad(cond, a.dispatcher) {
				gateOK = true
			}
		}
	}
	c.Req(gateOK, "C01.R3:dispatcher-reads-own-flag", r3, p.Pos(a.dispatcher.Pos()), "no branch in the dispatcher tests receiver."+a.flag.Name()+" directly")
	// allocation sites of H
	nAlloc := 0
	for _, fn := range p.RepoFns {
		allInstrs(fn, func(in ssa.Instruction) {
			al, ok := in.(*ssa.Alloc)
			if !ok || namedOf(al.Type()) != a.H {
				return
			}
			if _, isPtrToNamed := al.Type().(*types.Pointer).Elem().(*types.Named); !isPtrToNamed {
				return
			}
			nAlloc++
			key := "C01.R3:alloc:" + fnName(fn)
			// must be in the constructor that handleClient calls with the accepted conn
			good := a.newHandler != nil && fn == a.newHandler
			c.Req(good, key, r3, p.InstrPos(al), "handler allocated outside the per-connection constructor called from "+fnName(a.handleClient))
		})
	}
	c.Floor("C01.R3:alloc", nAlloc, 1)
	if a.newHandler != nil {
		c.Saw(fnName(a.newHandler))
		// constructor has exactly one caller: handleClient; handleClient is started per Accept
		callers := la.callers[a.newHandler]
		good := len(callers) == 1 && callers[0].Parent() == a.handleClient && !la.escaped[a.newHandler]
		c.Req(good, "C01.R3:ctor-callers", r3, p.Pos(a.newHandler.Pos()), "the handler constructor is called from places other than the per-connection entry")
		// handleClient is only started by `go` from a loop that calls Accept, with Accept's result
		okAccept := false
		var where string
		for _, fn := range p.RepoFns {
			allInstrs(fn, func(in ssa.Instruction) {
				g, ok := in.(*ssa.Go)
				if !ok || staticCallee(g) != a.handleClient {
					return
				}
				where = p.InstrPos(g)
				args := g.Call.Args
				if len(args) >= 2 {
					if tup, idx := tupleSource(args[1]); tup != nil && idx == 0 {
						if call, ok := tup.(*ssa.Call); ok {
							if _, isAccept := methodCallNamed(call, "Accept"); isAccept {
								okAccept = true
							}
						}
					}
				}
			})
		}
		c.Req(okAccept, "C01.R3:per-accept", r3, where, "per-connection entry is not started with the connection returned by Accept")
		// the same handler object is used for Handler and StreamDispatcher, and ServeQUICConn gets the same conn
		sameObj := false
		allInstrs(a.handleClient, func(in ssa.Instruction) {
			if mc, ok := in.(*ssa.MakeClosure); ok && len(mc.Bindings) == 1 {
				if call, ok := resolve(mc.Bindings[0]).(*ssa.Call); ok && staticCallee(call) == a.newHandler {
					sameObj = true
				}
			}
		})
		c.Req(sameObj, "C01.R3:same-object", r3, p.Pos(a.handleClient.Pos()), "StreamDispatcher is not bound to the handler object created for this connection")
	}

	// ---- R1: flag writers
	const r1 = "C01.R1 every store to the gate flag is `true`, in the handler's ServeHTTP, behind the true-edge of Authenticate(this handler's conn), under the auth mutex"
	stores := 0
	for _, fr := range fieldRefs(p.RepoFns, a.flag) {
		switch fr.Kind {
		case "store":
			stores++
			key := "C01.R1:store:" + fnName(fr.Fn)
			pos := p.InstrPos(fr.Instr)
			if !c.Req(isConstBool(fr.Val, true), key+":value", r1, pos, "stores a value other than the constant true (revocation or computed verdict)") {
				continue
			}
			c.Req(a.inAuthRegion(la, fr.Instr, 0), key+":after-verdict", r1, pos, "a path reaches this store without crossing the true-edge of the authenticator's verdict in "+fnName(a.serveHTTP))
			if a.authMutex != nil {
				c.Req(la.Holds(fr.Instr, a.authMutex, lockW), key+":mutex", r1, pos, "auth mutex not held at the store")
			}
			ap := accessPath(fr.Addr)
			c.Req(a.rootIsHandler(ap) && len(ap.Fields) == 1, key+":receiver", r1, pos, "store goes through another object than the handler itself")
		case "addr":
			c.Bad("C01.R1:alias:"+fnName(fr.Fn), r1, p.InstrPos(fr.Instr), "address of the gate flag escapes (alias writes cannot be excluded)")
		}
	}
	c.Floor("C01.R1:store", stores, 1)
	// the verdict is about this connection
	{
		cc := a.authCall.Common()
		ap := accessPath(cc.Value)
		okRecv := ap.Root == a.serveHTTP.Params[0] && len(ap.Fields) == 2 && ap.Fields[1].Name() == "Authenticator"
		c.Req(okRecv, "C01.R1:auth-receiver", r1, p.InstrPos(a.authCall), "Authenticate is not invoked on receiver.config.Authenticator: "+ap.String())
		okAddr := false
		if len(cc.Args) > 0 {
			if call, ok := resolve(cc.Args[0]).(*ssa.Call); ok {
				if recv, isRA := methodCallNamed(call, "RemoteAddr"); isRA {
					rp := accessPath(recv)
					okAddr = rp.Root == a.serveHTTP.Params[0] && len(rp.Fields) == 1
				}
			}
		}
		c.Req(okAddr, "C01.R1:auth-addr", r1, p.InstrPos(a.authCall), "Authenticate's address argument is not RemoteAddr() of this handler's connection")
	}

	// ---- R2: no re-evaluation
	const r2 = "C01.R2 Authenticate and the identity store are reachable only over the flag==false edge, the flag being read under the auth mutex"
	flagFalse := func(cond ssa.Value, pol bool) bool {
		if pol || !a.isFlagLoad(cond, a.serveHTTP) {
			return false
		}
		if a.authMutex != nil {
			if in, ok := cond.(ssa.Instruction); ok && !la.Holds(in, a.authMutex, lockW) {
				return false
			}
		}
		return true
	}
	c.Req(guardedBy(a.authCall, flagFalse), "C01.R2:auth-once", r2, p.InstrPos(a.authCall), "Authenticate is reachable when the connection is already authenticated (or the flag is read without the mutex)")
	if idf := p.Field(pServer, a.H.Obj().Name(), "authID"); idf != nil {
		n := 0
		for _, fr := range fieldRefs(p.RepoFns, idf) {
			if fr.Kind != "store" {
				continue
			}
			n++
			key := "C01.R2:authID-store:" + fnName(fr.Fn)
			good := a.inAuthRegion(la, fr.Instr, 0) && a.authID != nil && (resolve(fr.Val) == a.authID || fr.Fn != a.serveHTTP)
			c.Req(good, key, r2, p.InstrPos(fr.Instr), "identity stored outside the first accepted authentication, or not the authenticator's id")
		}
		c.Floor("C01.R2:authID-store", n, 1)
	}

	// ---- R4: gate on every route to an outbound
	const r4 = "C01.R4 every function containing an Outbound.TCP/UDP/CheckUDP call is reachable (VTA call graph) only across the dispatcher's flag true-edge or the auth-ok true-edge"
	sites := outboundSites(p)
	c.Floor("C01.R4:outbound-sites", len(sites), 3)
	g := &gating{p: p, a: a, cg: p.VTA(), memo: map[*ssa.Function]int{}, reason: map[*ssa.Function]string{}}
	for _, s := range sites {
		fn := s.Parent()
		c.Saw(fnName(fn))
		key := "C01.R4:" + fnName(fn) + "→Outbound." + s.Common().Method.Name()
		ok := g.siteGated(s) || g.gated(fn)
		c.Req(ok, key, r4, p.InstrPos(s), "ungated route: "+g.reason[fn])
	}
	for fn, st := range g.memo {
		if st == 1 {
			c.Saw(fnName(fn))
		}
	}
	// go statements in ServeHTTP (UDP session manager start) must be behind the verdict
	for _, fn := range withAnon(a.serveHTTP) {
		allInstrs(fn, func(in ssa.Instruction) {
			gi, ok := in.(*ssa.Go)
			if !ok {
				return
			}
			callee := "<dynamic>"
			if f := staticCallee(gi); f != nil {
				callee = fnName(f)
			}
			key := "C01.R4:go:" + fnName(fn) + "→" + callee
			ok2 := fn != a.serveHTTP || guardedBy(gi, a.authOKEdge)
			if fn != a.serveHTTP {
				ok2 = g.gated(fn)
			}
			c.Req(ok2, key, r4, p.InstrPos(gi), "goroutine started from the HTTP handler outside the auth-ok region")
		})
	}

	// ---- R5: dispatcher silence before the gate
	const r5 = "C01.R5 on paths that have not crossed the flag true-edge the dispatcher performs no call that receives the stream"
	var stream *ssa.Parameter
	for _, pr := range a.dispatcher.Params {
		if n := namedOf(pr.Type()); n != nil && n.Obj().Name() == "Stream" && strings.HasSuffix(n.Obj().Pkg().Path(), "quic-go") {
			stream = pr
		}
	}
	if stream == nil {
		c.Unres("stream parameter of the dispatcher")
		return
	}
	flagTrue := func(cond ssa.Value, pol bool) bool { return pol && a.isFlagLoad(cond, a.dispatcher) }
	bad := ""
	for _, in := range reachFrom(a.dispatcher, nil, nil, flagTrue) {
		switch x := in.(type) {
		case ssa.CallInstruction:
			for _, arg := range x.Common().Args {
				if derivedFrom(arg, stream) {
					bad = p.InstrPos(in)
				}
			}
			if x.Common().IsInvoke() && derivedFrom(x.Common().Value, stream) {
				bad = p.InstrPos(in)
			}
		case *ssa.Return:
			// must report "not handled"
			if len(x.Results) > 0 && !isConstBool(x.Results[0], false) {
				bad = p.InstrPos(in) + " (returns handled=true before the gate)"
			}
		}
	}
	c.Req(bad == "", "C01.R5:"+fnName(a.dispatcher), r5, p.Pos(a.dispatcher.Pos()), "stream touched or claimed before the authentication gate at "+bad)
	for _, h := range a.handoffs {
		c.Req(guardedBy(h, flagTrue), "C01.R5:handoff:"+fnName(a.dispatcher), r5, p.InstrPos(h), "stream handed to a goroutine without crossing the flag true-edge")
	}
	c.Floor("C01.R5:handoff", len(a.handoffs), 1)
}

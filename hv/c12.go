package main

import (
	"fmt"
	"go/token"
	"go/types"
	"os"
	"sort"
	"strings"

	"golang.org/x/tools/go/ssa"
)

// C12 – BBR survives any QUIC-consistent event sequence with sane outputs.
//
// Part A of this file is a small kit local to C12 (all identifiers prefixed
// c12): a call-aware memory model for struct fields (two loads of a field are
// the same value only when no store *and no call that may store the field*
// lies between them), a wrapper around the shared linear prover (min/max goal
// decomposition, predecessor-edge case split, disjunctive goals, callee
// summaries, lifting of parameter-only goals to every call site) and a
// "never zero" analysis.  Part B holds the rules.

const c12pQUICCongestion = "github.com/apernet/quic-go/congestion"
const c12MonoTime = "(github.com/apernet/quic-go/internal/monotime.Time)."

// ---------------------------------------------------------------------------
// Part A.1  kit, scope, mod sets

type c12inv struct {
	lo, hi   int64
	hasLo    bool
	hasHi    bool
	describe string
}

type c12kit struct {
	c        *Check
	p        *Prog
	scope    []*ssa.Function
	inScope  map[*ssa.Function]bool
	callers  map[*ssa.Function][]ssa.CallInstruction
	mod      map[*ssa.Function]map[*types.Var]bool
	dyn      map[string][]*ssa.Function
	fms      map[*ssa.Function]*c12fmem
	prs      map[*ssa.Function]*c12pr
	inv      map[*types.Var]c12inv
	ifaceNm  map[string]bool
	valUsed  map[*ssa.Function]bool
	lbMemo   map[string]*int64
	ubMemo   map[string]int // 0 unknown 1 yes 2 no
	nzMemo   map[*ssa.Function]int
	building map[*ssa.Function]bool
}

func c12inPkgs(fn *ssa.Function, pkgs ...string) bool {
	pk := fnPkg(fn)
	if pk == nil {
		return false
	}
	for _, q := range pkgs {
		if pk.Pkg.Path() == q {
			return true
		}
	}
	return false
}

// c12name: readable, stable function name (type arguments shortened).
func c12name(fn *ssa.Function) string {
	s := fnName(fn)
	s = strings.ReplaceAll(s, pBBR+".", "")
	s = strings.ReplaceAll(s, pCommon+".", "")
	s = strings.ReplaceAll(s, pCongestion+".", "")
	return s
}

func c12sigKey(sig *types.Signature) string {
	return types.TypeString(types.NewSignatureType(nil, nil, nil, sig.Params(), sig.Results(), sig.Variadic()), nil)
}

func newC12kit(c *Check) *c12kit {
	k := &c12kit{c: c, p: c.P, inScope: map[*ssa.Function]bool{}, callers: map[*ssa.Function][]ssa.CallInstruction{},
		mod: map[*ssa.Function]map[*types.Var]bool{}, dyn: map[string][]*ssa.Function{}, fms: map[*ssa.Function]*c12fmem{},
		prs: map[*ssa.Function]*c12pr{}, inv: map[*types.Var]c12inv{}, ifaceNm: map[string]bool{}, valUsed: map[*ssa.Function]bool{},
		lbMemo: map[string]*int64{}, ubMemo: map[string]int{}, nzMemo: map[*ssa.Function]int{}, building: map[*ssa.Function]bool{}}
	for _, fn := range c.P.RepoFns {
		if len(fn.Blocks) > 0 && c12inPkgs(fn, pBBR, pCommon, pCongestion) {
			k.scope = append(k.scope, fn)
			k.inScope[fn] = true
		}
	}
	for _, fn := range k.scope {
		sk := c12sigKey(fn.Signature)
		k.dyn["f:"+sk] = append(k.dyn["f:"+sk], fn)
		if fn.Signature.Recv() != nil {
			k.dyn["m:"+fn.Name()+sk] = append(k.dyn["m:"+fn.Name()+sk], fn)
		}
	}
	for _, fn := range c.P.RepoFns {
		allInstrs(fn, func(in ssa.Instruction) {
			switch x := in.(type) {
			case ssa.CallInstruction:
				cc := x.Common()
				if cc.IsInvoke() {
					k.ifaceNm[cc.Method.Name()] = true
				} else if f := cc.StaticCallee(); f != nil {
					k.callers[f] = append(k.callers[f], x)
				}
			case *ssa.MakeClosure:
				if f, ok := x.Fn.(*ssa.Function); ok {
					k.valUsed[f] = true
					// bound-method wrappers: the wrapped method is used as a value
					if f.Synthetic != "" {
						allInstrs(f, func(in2 ssa.Instruction) {
							if ci, ok := in2.(ssa.CallInstruction); ok {
								if g := ci.Common().StaticCallee(); g != nil {
									k.valUsed[g] = true
								}
							}
						})
					}
				}
			}
			for _, op := range in.Operands(nil) {
				if f, ok := (*op).(*ssa.Function); ok {
					if ci, isCall := in.(ssa.CallInstruction); !isCall || ci.Common().Value != ssa.Value(f) {
						k.valUsed[f] = true
					}
				}
			}
		})
	}
	for _, nm := range []string{"CongestionControl", "CongestionControlEx"} {
		if nt := c.P.Named(c12pQUICCongestion, nm); nt != nil {
			if it, ok := nt.Underlying().(*types.Interface); ok {
				for i := 0; i < it.NumMethods(); i++ {
					k.ifaceNm[it.Method(i).Name()] = true
				}
			}
		}
	}
	k.buildMod()
	return k
}

func c12storeFields(st *ssa.Store, m map[*types.Var]bool) {
	if fa, ok := st.Addr.(*ssa.FieldAddr); ok {
		if f := structField(fa.X.Type(), fa.Field); f != nil {
			m[f.Origin()] = true
		}
	}
	if pt, ok := st.Addr.Type().Underlying().(*types.Pointer); ok {
		c12allFields(pt.Elem(), m, 0)
	}
}

// c12allFields marks every (nested) field of a struct / array-of-struct type.
func c12allFields(t types.Type, m map[*types.Var]bool, d int) {
	if d > 4 {
		return
	}
	switch u := t.Underlying().(type) {
	case *types.Struct:
		for i := 0; i < u.NumFields(); i++ {
			m[u.Field(i).Origin()] = true
			c12allFields(u.Field(i).Type(), m, d+1)
		}
	case *types.Array:
		c12allFields(u.Elem(), m, d+1)
	}
}

// calleesOf: in-scope functions a call may enter (static callee, or every
// in-scope function of matching name/signature for dynamic calls).
func (k *c12kit) calleesOf(ci ssa.CallInstruction) []*ssa.Function {
	cc := ci.Common()
	if cc.IsInvoke() {
		sig, _ := cc.Method.Type().(*types.Signature)
		if sig == nil {
			return nil
		}
		return k.dyn["m:"+cc.Method.Name()+c12sigKey(sig)]
	}
	if _, ok := cc.Value.(*ssa.Builtin); ok {
		return nil
	}
	if f := cc.StaticCallee(); f != nil {
		if k.inScope[f] {
			return []*ssa.Function{f}
		}
		return nil
	}
	if sig, ok := cc.Value.Type().Underlying().(*types.Signature); ok {
		return k.dyn["f:"+c12sigKey(sig)]
	}
	return nil
}

func (k *c12kit) buildMod() {
	for _, fn := range k.scope {
		m := map[*types.Var]bool{}
		allInstrs(fn, func(in ssa.Instruction) {
			if st, ok := in.(*ssa.Store); ok {
				c12storeFields(st, m)
			}
		})
		k.mod[fn] = m
	}
	for changed := true; changed; {
		changed = false
		for _, fn := range k.scope {
			m := k.mod[fn]
			allInstrs(fn, func(in ssa.Instruction) {
				ci, ok := in.(ssa.CallInstruction)
				if !ok {
					return
				}
				for _, g := range k.calleesOf(ci) {
					for f := range k.mod[g] {
						if !m[f] {
							m[f] = true
							changed = true
						}
					}
				}
			})
		}
	}
}

// callMods: does the call possibly store field f?
func (k *c12kit) callMods(ci ssa.CallInstruction, f *types.Var) bool {
	for _, g := range k.calleesOf(ci) {
		if k.mod[g][f.Origin()] {
			return true
		}
	}
	return false
}

// liftable: every caller of fn is a static call site inside the repository.
func (k *c12kit) liftable(fn *ssa.Function) bool {
	if k.valUsed[fn] {
		return false
	}
	if fn.Signature.Recv() != nil && k.ifaceNm[fn.Name()] {
		return false
	}
	return true
}

// ---------------------------------------------------------------------------
// Part A.2  per-function memory model

type c12loc struct {
	root   ssa.Value
	fields []*types.Var
}

func (l c12loc) String() string {
	var s []string
	for _, f := range l.fields {
		s = append(s, f.Name())
	}
	return strings.Join(s, ".")
}

func c12locOfAddr(addr ssa.Value) (c12loc, bool) {
	if _, ok := addr.(*ssa.FieldAddr); !ok {
		return c12loc{}, false
	}
	ap := accessPath(addr)
	if len(ap.Fields) == 0 {
		return c12loc{}, false
	}
	for _, f := range ap.Fields {
		if f == nil {
			return c12loc{}, false
		}
	}
	return c12loc{root: ap.Root, fields: ap.Fields}, true
}

func c12sameLoc(a, b c12loc) bool {
	if a.root != b.root || len(a.fields) != len(b.fields) {
		return false
	}
	for i := range a.fields {
		if a.fields[i].Origin() != b.fields[i].Origin() {
			return false
		}
	}
	return true
}

// c12synth is a synthetic atom: "the value of location loc at instruction at".
type c12synth struct {
	loc c12loc
	at  ssa.Instruction // nil: keyed by the unique reaching definition def (def nil: value at function entry)
	def ssa.Instruction
	fn  *ssa.Function
	id  int
}

func (s *c12synth) Name() string                  { return fmt.Sprintf("%s@%d", s.loc.String(), s.id) }
func (s *c12synth) String() string                { return s.Name() }
func (s *c12synth) Type() types.Type              { return s.loc.fields[len(s.loc.fields)-1].Type() }
func (s *c12synth) Parent() *ssa.Function         { return s.fn }
func (s *c12synth) Referrers() *[]ssa.Instruction { return nil }
func (s *c12synth) Pos() token.Pos                { return token.NoPos }

type c12fmem struct {
	k        *c12kit
	fn       *ssa.Function
	idx      map[ssa.Instruction]int
	reach    map[*ssa.BasicBlock]map[*ssa.BasicBlock]bool
	defs     map[*types.Var][]ssa.Instruction
	loads    []*ssa.UnOp
	stores   []*ssa.Store
	rep      map[ssa.Value]ssa.Value
	synth    []*c12synth
	hasDefer bool
}

func (k *c12kit) mem(fn *ssa.Function) *c12fmem {
	if fm := k.fms[fn]; fm != nil {
		return fm
	}
	fm := &c12fmem{k: k, fn: fn, idx: map[ssa.Instruction]int{}, reach: map[*ssa.BasicBlock]map[*ssa.BasicBlock]bool{},
		defs: map[*types.Var][]ssa.Instruction{}, rep: map[ssa.Value]ssa.Value{}}
	k.fms[fn] = fm
	for _, b := range fn.Blocks {
		r := map[*ssa.BasicBlock]bool{}
		var walk func(x *ssa.BasicBlock)
		walk = func(x *ssa.BasicBlock) {
			for _, s := range x.Succs {
				if !r[s] {
					r[s] = true
					walk(s)
				}
			}
		}
		walk(b)
		fm.reach[b] = r
		for i, in := range b.Instrs {
			fm.idx[in] = i
			switch x := in.(type) {
			case *ssa.Store:
				m := map[*types.Var]bool{}
				c12storeFields(x, m)
				for f := range m {
					fm.defs[f] = append(fm.defs[f], in)
				}
				if _, ok := x.Addr.(*ssa.FieldAddr); ok {
					fm.stores = append(fm.stores, x)
				}
			case *ssa.UnOp:
				if x.Op == token.MUL {
					if _, ok := x.X.(*ssa.FieldAddr); ok {
						fm.loads = append(fm.loads, x)
					}
				}
			case *ssa.Defer:
				fm.hasDefer = true
			}
			if ci, ok := in.(ssa.CallInstruction); ok {
				seen := map[*types.Var]bool{}
				for _, g := range k.calleesOf(ci) {
					for f := range k.mod[g] {
						if !seen[f] {
							seen[f] = true
							fm.defs[f] = append(fm.defs[f], in)
						}
					}
				}
			}
		}
	}
	return fm
}

func (fm *c12fmem) after(a, b ssa.Instruction) bool {
	if a.Block() == b.Block() && fm.idx[a] < fm.idx[b] {
		return true
	}
	return fm.reach[a.Block()][b.Block()]
}

func (fm *c12fmem) dom(a, b ssa.Instruction) bool {
	if a.Block() == b.Block() {
		return fm.idx[a] < fm.idx[b]
	}
	return a.Block().Dominates(b.Block())
}

func (fm *c12fmem) defsFor(loc c12loc) []ssa.Instruction {
	var out []ssa.Instruction
	for _, f := range loc.fields {
		out = append(out, fm.defs[f.Origin()]...)
	}
	return out
}

// clean: no definition of loc executes between a and b.
func (fm *c12fmem) clean(a, b ssa.Instruction, ds []ssa.Instruction) bool {
	for _, d := range ds {
		if d == a {
			continue
		}
		if fm.after(a, d) && fm.after(d, b) {
			return false
		}
	}
	return true
}

// reachingDefs: the definitions of loc (members of ds) that can be the last one
// executed before control reaches P; entry reports a path from the function
// entry to P that executes none.
func (fm *c12fmem) reachingDefs(P ssa.Instruction, ds []ssa.Instruction) (rd []ssa.Instruction, entry bool) {
	isDef := map[ssa.Instruction]bool{}
	for _, d := range ds {
		isDef[d] = true
	}
	stop := func(in ssa.Instruction) bool { return isDef[in] }
	for _, in := range reachFrom(fm.fn, nil, stop, nil) {
		if in == P {
			entry = true
			break
		}
	}
	for d := range isDef {
		for _, in := range reachFrom(fm.fn, d, stop, nil) {
			if in == P {
				rd = append(rd, d)
				break
			}
		}
	}
	return
}

func (fm *c12fmem) keyedSynth(loc c12loc, def ssa.Instruction) *c12synth {
	for _, s := range fm.synth {
		if s.at == nil && s.def == def && c12sameLoc(s.loc, loc) {
			return s
		}
	}
	s := &c12synth{loc: loc, def: def, fn: fm.fn, id: len(fm.synth) + 1}
	fm.synth = append(fm.synth, s)
	return s
}

// lookup: the value location loc holds when control reaches P (before P
// executes), if it can be named by an existing SSA value or by a synthetic
// atom determined by the unique definition reaching P.
func (fm *c12fmem) lookup(P ssa.Instruction, loc c12loc) (ssa.Value, bool) {
	if fm.hasDefer {
		return nil, false
	}
	ds := fm.defsFor(loc)
	if len(ds) == 0 {
		// the location is never defined inside fn: one value throughout
		return fm.keyedSynth(loc, nil), true
	}
	rd, entry := fm.reachingDefs(P, ds)
	if entry && len(rd) == 0 {
		return fm.keyedSynth(loc, nil), true
	}
	if !entry && len(rd) == 1 {
		d := rd[0]
		if st, ok := d.(*ssa.Store); ok {
			if l, ok := c12locOfAddr(st.Addr); ok && c12sameLoc(l, loc) && ssa.Instruction(st) != P && fm.dom(st, P) {
				return fm.repOf(st.Val), true
			}
		}
		if d != P && !fm.after(d, d) {
			// a definition executed at most once per activation whose value we
			// cannot name: every point it alone reaches sees the same value
			return fm.keyedSynth(loc, d), true
		}
	}
	for _, s := range fm.synth {
		if s.at != nil && s.at == P && c12sameLoc(s.loc, loc) {
			return s, true
		}
	}
	var best ssa.Instruction
	var bestVal ssa.Value
	consider := func(in ssa.Instruction, v ssa.Value, l c12loc) {
		if in == P || !c12sameLoc(l, loc) || !fm.dom(in, P) || !fm.clean(in, P, ds) {
			return
		}
		if best == nil || fm.dom(in, best) {
			best, bestVal = in, v
		}
	}
	for _, L := range fm.loads {
		if l, ok := c12locOfAddr(L.X); ok {
			consider(L, L, l)
		}
	}
	for _, s := range fm.synth {
		if s.at != nil {
			consider(s.at, s, s.loc)
		}
	}
	if best == nil {
		return nil, false
	}
	if L, ok := bestVal.(*ssa.UnOp); ok {
		return fm.repOfLoad(L), true
	}
	return bestVal, true
}

func (fm *c12fmem) repOfLoad(L *ssa.UnOp) ssa.Value {
	if r, ok := fm.rep[L]; ok {
		return r
	}
	fm.rep[L] = L
	if loc, ok := c12locOfAddr(L.X); ok {
		if v, ok := fm.lookup(L, loc); ok {
			fm.rep[L] = v
		}
	}
	return fm.rep[L]
}

func (fm *c12fmem) repOf(v ssa.Value) ssa.Value {
	v = resolve(v)
	if u, ok := v.(*ssa.UnOp); ok && u.Op == token.MUL {
		if _, ok := u.X.(*ssa.FieldAddr); ok {
			return fm.repOfLoad(u)
		}
	}
	return v
}

// valueAt names the value of loc at P, creating a synthetic atom when no SSA
// value denotes it.
func (fm *c12fmem) valueAt(P ssa.Instruction, loc c12loc) ssa.Value {
	if v, ok := fm.lookup(P, loc); ok {
		return v
	}
	s := &c12synth{loc: loc, at: P, fn: fm.fn, id: len(fm.synth) + 1}
	fm.synth = append(fm.synth, s)
	return s
}

// ---------------------------------------------------------------------------
// Part A.3  prover wrapper

type c12pr struct {
	k      *c12kit
	fn     *ssa.Function
	lp     *linProver
	fm     *c12fmem
	inl    map[ssa.Value]*lin // inlinable calls
	lbDone bool
}

// trusted stable getters: two calls on the same receiver with no intervening
// definition of the receiver yield the same value within one event.
func c12stableGetter(ci ssa.CallInstruction) bool {
	cc := ci.Common()
	if len(callArgs(ci)) != 0 {
		return false
	}
	if cc.IsInvoke() {
		return cc.Method.Name() == "MinRTT"
	}
	return calleeIs(ci, pQUIC, "(*Conn).InitialPacketSize")
}

func c12monoMethod(ci ssa.CallInstruction) string {
	f := ci.Common().StaticCallee()
	if f == nil || f.Signature.Recv() == nil {
		return ""
	}
	s := f.String()
	if len(s) > len(c12MonoTime) && s[:len(c12MonoTime)] == c12MonoTime {
		return s[len(c12MonoTime):]
	}
	return ""
}

func (k *c12kit) prover(fn *ssa.Function) *c12pr {
	if pr := k.prs[fn]; pr != nil {
		return pr
	}
	pr := &c12pr{k: k, fn: fn, lp: newLinProver(k.p, fn), fm: k.mem(fn), inl: map[ssa.Value]*lin{}}
	// Packet-number spans / window sizes are assumed to fit the platform int
	// (stated as an assumption): reason with 64-bit int on every configuration.
	pr.lp.intBits = 64
	k.prs[fn] = pr
	for _, L := range pr.fm.loads {
		pr.lp.canonMem[L] = pr.fm.repOfLoad(L)
	}
	// stable getters
	var getters []*ssa.Call
	allInstrs(fn, func(in ssa.Instruction) {
		if c, ok := in.(*ssa.Call); ok && c12stableGetter(c) {
			getters = append(getters, c)
		}
	})
	recvOf := func(c *ssa.Call) ssa.Value {
		if c.Call.IsInvoke() {
			return pr.fm.repOf(c.Call.Value)
		}
		return pr.fm.repOf(c.Call.Args[0])
	}
	nameOf := func(c *ssa.Call) string {
		if c.Call.IsInvoke() {
			return c.Call.Method.Name()
		}
		return c.Call.StaticCallee().String()
	}
	for _, c2 := range getters {
		for _, c1 := range getters {
			if c1 != c2 && nameOf(c1) == nameOf(c2) && recvOf(c1) == recvOf(c2) && pr.fm.dom(c1, c2) {
				if prev, ok := pr.lp.canonMem[c2]; !ok || pr.fm.dom(c1, prev.(*ssa.Call)) {
					pr.lp.canonMem[c2] = c1
				}
			}
		}
	}
	// field invariants on loads; linear models of calls
	cx := func(at ssa.Instruction) *linCtx { return pr.lp.newCtx(at) }
	for _, L := range pr.fm.loads {
		// only for loads that stand for themselves (or for a synthetic atom):
		// a load whose value is a store of this function gets no assumption,
		// the stored value is what the invariant has to be proved for
		rep := pr.fm.repOfLoad(L)
		_, isSynth := rep.(*c12synth)
		if rep != ssa.Value(L) && !isSynth {
			continue
		}
		fa := L.X.(*ssa.FieldAddr)
		if f := structField(fa.X.Type(), fa.Field); f != nil {
			pr.addInv(pr.lp.lin(L, cx(L)), f)
		}
	}
	allInstrs(fn, func(in ssa.Instruction) {
		c, ok := in.(*ssa.Call)
		if !ok || !isIntType(c.Type()) {
			return
		}
		switch c12monoMethod(c) {
		case "Sub":
			e := pr.lp.lin(c.Call.Args[0], cx(c)).sub(pr.lp.lin(c.Call.Args[1], cx(c)))
			pr.eqFact(c, e, "t.Sub(u) = t-u")
			return
		case "Add":
			e := pr.lp.lin(c.Call.Args[0], cx(c)).add(pr.lp.lin(c.Call.Args[1], cx(c)))
			pr.eqFact(c, e, "t.Add(d) = t+d")
			return
		}
		if e, ok := pr.inlineLin(c); ok {
			pr.inl[c] = &e
			pr.eqFact(c, e, "inlined "+c.Call.StaticCallee().Name())
		}
	})
	return pr
}

func (pr *c12pr) eqFact(v ssa.Value, e lin, why string) {
	a := linAtom(v)
	pr.lp.pre = append(pr.lp.pre, linFact{a.sub(e), why}, linFact{e.sub(a), why})
}

func (pr *c12pr) addInv(l lin, f *types.Var) {
	iv, ok := pr.k.inv[f.Origin()]
	if !ok {
		return
	}
	if iv.hasLo {
		pr.lp.pre = append(pr.lp.pre, linFact{linConst(iv.lo).sub(l), "field invariant " + iv.describe})
	}
	if iv.hasHi {
		pr.lp.pre = append(pr.lp.pre, linFact{l.sub(linConst(iv.hi)), "field invariant " + iv.describe})
	}
}

// fieldAt: linear form of the value of root.fields at instruction P.
func (pr *c12pr) fieldAt(P ssa.Instruction, root ssa.Value, fields ...*types.Var) lin {
	ap := accessPath(root)
	loc := c12loc{root: ap.Root, fields: append(append([]*types.Var{}, ap.Fields...), fields...)}
	n := len(pr.fm.synth)
	v := pr.fm.valueAt(P, loc)
	l := pr.lp.lin(v, pr.lp.newCtx(P))
	if len(pr.fm.synth) > n {
		pr.addInv(l, fields[len(fields)-1])
	}
	return l
}

// inlineLin: the callee is a one-block pure function whose result is linear in
// its parameters and in fields of its pointer parameters.
func (pr *c12pr) inlineLin(c *ssa.Call) (lin, bool) {
	f := c.Call.StaticCallee()
	if f == nil || !pr.k.inScope[f] || len(f.Blocks) != 1 {
		return lin{}, false
	}
	var ret *ssa.Return
	for _, in := range f.Blocks[0].Instrs {
		switch x := in.(type) {
		case *ssa.FieldAddr, *ssa.BinOp, *ssa.Convert, *ssa.ChangeType, *ssa.DebugRef:
		case *ssa.UnOp:
			if x.Op != token.MUL {
				return lin{}, false
			}
		case *ssa.Return:
			ret = x
		default:
			return lin{}, false
		}
	}
	if ret == nil || len(ret.Results) != 1 {
		return lin{}, false
	}
	cx := pr.lp.newCtx(c)
	var tr func(v ssa.Value, d int) (lin, bool)
	tr = func(v ssa.Value, d int) (lin, bool) {
		if d > 12 {
			return lin{}, false
		}
		switch x := v.(type) {
		case *ssa.Parameter:
			for i, p := range f.Params {
				if p == x {
					return pr.lp.lin(c.Call.Args[i], cx), true
				}
			}
		case *ssa.Const:
			if k, ok := constInt(x); ok {
				return linConst(k), true
			}
		case *ssa.BinOp:
			if !isIntType(x.Type()) {
				return lin{}, false
			}
			a, ok1 := tr(x.X, d+1)
			b, ok2 := tr(x.Y, d+1)
			if !ok1 || !ok2 {
				return lin{}, false
			}
			switch x.Op {
			case token.ADD:
				return a.add(b), true
			case token.SUB:
				if !isUnsigned(x.Type()) {
					return a.sub(b), true
				}
			case token.MUL:
				if a.isConst() && a.k >= 0 && a.k < 1<<20 {
					return linConst(0).addScaled(b, a.k), true
				}
				if b.isConst() && b.k >= 0 && b.k < 1<<20 {
					return linConst(0).addScaled(a, b.k), true
				}
			}
		case *ssa.ChangeType:
			return tr(x.X, d+1)
		case *ssa.Convert:
			if isIntType(x.Type()) && isIntType(x.X.Type()) {
				slo, shi, _, sok := pr.lp.typeRange(x.X.Type())
				dlo, dhi, _, dok := pr.lp.typeRange(x.Type())
				if sok && dok && slo >= dlo && shi <= dhi {
					return tr(x.X, d+1)
				}
			}
		case *ssa.UnOp:
			if x.Op == token.MUL {
				ap := accessPath(x.X)
				if par, ok := ap.Root.(*ssa.Parameter); ok && len(ap.Fields) > 0 && isIntType(x.Type()) {
					for i, p := range f.Params {
						if p == par {
							return pr.fieldAt(c, c.Call.Args[i], ap.Fields...), true
						}
					}
				}
			}
		}
		return lin{}, false
	}
	if !isIntType(ret.Results[0].Type()) {
		return lin{}, false
	}
	return tr(ret.Results[0], 0)
}

// norm replaces inlinable call atoms by their linear form.
func (pr *c12pr) norm(l lin) lin {
	for i := 0; i < 4; i++ {
		changed := false
		out := linConst(l.k)
		for a, c := range l.c {
			if e, ok := pr.inl[a]; ok {
				out = out.addScaled(*e, c)
				changed = true
			} else {
				out = out.addScaled(linAtom(a), c)
			}
		}
		l = out
		if !changed {
			break
		}
	}
	return l
}

func c12gcd(a, b int64) int64 {
	if a < 0 {
		a = -a
	}
	if b < 0 {
		b = -b
	}
	for b != 0 {
		a, b = b, a%b
	}
	return a
}

// c12normGoal divides `Σ c·a + k <= 0` by the gcd of the coefficients.
func c12normGoal(g lin) lin {
	var d int64
	for _, c := range g.c {
		d = c12gcd(d, c)
	}
	if d <= 1 {
		return g
	}
	out := linConst(0)
	for a, c := range g.c {
		out.c[a] = c / d
	}
	// ceil(k/d)
	q := g.k / d
	if g.k%d != 0 && g.k > 0 {
		q++
	}
	out.k = q
	return out
}

func (pr *c12pr) condFactsCall(cond ssa.Value, pol bool, cx *linCtx) []linFact {
	c, ok := cond.(*ssa.Call)
	if !ok {
		return nil
	}
	m := c12monoMethod(c)
	if m != "After" && m != "Before" {
		return nil
	}
	t, u := pr.lp.lin(c.Call.Args[0], cx), pr.lp.lin(c.Call.Args[1], cx)
	if m == "Before" {
		t, u = u, t
	}
	// t.After(u)
	if pol {
		return []linFact{{u.sub(t).add(linConst(1)), "edge t.After(u)"}}
	}
	return []linFact{{t.sub(u), "edge !t.After(u)"}}
}

func (pr *c12pr) condFactsX(cond ssa.Value, pol bool, cx *linCtx) []linFact {
	return append(pr.lp.condFacts(cond, pol, cx), pr.condFactsCall(cond, pol, cx)...)
}

func (pr *c12pr) ctxAt(at ssa.Instruction, cx *linCtx) *linCtx {
	out := &linCtx{at: at, subst: map[ssa.Value]ssa.Value{}}
	if cx != nil {
		for a, b := range cx.subst {
			out.subst[a] = b
		}
		out.extra = append(out.extra, cx.extra...)
	}
	for _, er := range pr.lp.domEdges(at.Block()) {
		if cond, pol, ok := edgeFact(er.b, er.i); ok {
			out.extra = append(out.extra, pr.condFactsCall(cond, pol, out)...)
		}
	}
	return out
}

func c12loopHeader(b *ssa.BasicBlock) bool {
	for _, p := range b.Preds {
		if b.Dominates(p) {
			return true
		}
	}
	return false
}

// proveAny: at instruction `at`, at least one of the goals `g <= 0` holds.
// infeasible: two facts valid at `at` contradict each other (their sum is a
// positive constant that would have to be <= 0): no execution reaches `at`
// under the current hypotheses, any goal holds there.
func (pr *c12pr) infeasible(at ssa.Instruction, cx *linCtx) bool {
	seed := linConst(0)
	for _, f := range cx.extra {
		for a := range f.e.c {
			seed.c[a] = 1
		}
	}
	facts := pr.lp.gatherFacts(seed, cx)
	for i := range facts {
		for j := i + 1; j < len(facts); j++ {
			sum := facts[i].e.add(facts[j].e)
			if sum.isConst() && sum.k > 0 {
				return true
			}
		}
	}
	return false
}

func (pr *c12pr) proveAny(at ssa.Instruction, alts []lin, cx *linCtx, depth int) bool {
	pr.ensureLB()
	cx2 := pr.ctxAt(at, cx)
	if len(cx2.extra) > 0 && pr.infeasible(at, cx2) {
		return true
	}
	for i := range alts {
		alts[i] = c12normGoal(alts[i])
		if alts[i].isConst() {
			if alts[i].k <= 0 {
				return true
			}
			continue
		}
		if pr.lp.proveAt(at, alts[i], linConst(0), 0, cx2) {
			return true
		}
	}
	if depth >= 4 {
		return false
	}
	// min / max decomposition
	for _, goal := range alts {
		var atoms []ssa.Value
		for a := range goal.c {
			atoms = append(atoms, a)
		}
		sort.Slice(atoms, func(i, j int) bool { return atoms[i].Name() < atoms[j].Name() })
		for _, a := range atoms {
			c := goal.c[a]
			call, ok := a.(*ssa.Call)
			if !ok {
				continue
			}
			b, ok := call.Call.Value.(*ssa.Builtin)
			if !ok || (b.Name() != "min" && b.Name() != "max") {
				continue
			}
			all := (b.Name() == "min" && c < 0) || (b.Name() == "max" && c > 0)
			rest := goal.clone()
			delete(rest.c, a)
			n := 0
			for _, arg := range call.Call.Args {
				g := rest.addScaled(pr.lp.lin(arg, cx2), c)
				if pr.proveAny(at, []lin{g}, cx, depth+1) {
					n++
					if !all {
						return true
					}
				} else if all {
					break
				}
			}
			if all && n == len(call.Call.Args) {
				return true
			}
		}
	}
	// predecessor-edge case split
	B := at.Block()
	if len(B.Preds) < 2 || len(B.Preds) > 4 || c12loopHeader(B) {
		return false
	}
	for i, P := range B.Preds {
		cxi := &linCtx{at: at, subst: map[ssa.Value]ssa.Value{}}
		if cx != nil {
			for a, b := range cx.subst {
				cxi.subst[a] = b
			}
			cxi.extra = append(cxi.extra, cx.extra...)
		}
		for _, in := range B.Instrs {
			ph, ok := in.(*ssa.Phi)
			if !ok {
				break
			}
			cxi.subst[ph] = ph.Edges[i]
		}
		term := P.Instrs[len(P.Instrs)-1]
		pcx := &linCtx{at: term, subst: cxi.subst}
		if len(P.Succs) == 2 && P.Succs[0] != P.Succs[1] {
			for j, s := range P.Succs {
				if s == B {
					if cond, pol, ok := edgeFact(P, j); ok {
						cxi.extra = append(cxi.extra, pr.condFactsX(cond, pol, pcx)...)
					}
				}
			}
		}
		var alts2 []lin
		for _, g := range alts {
			alts2 = append(alts2, pr.lp.resubst(g, cxi))
		}
		if !pr.proveAny(term, alts2, cxi, depth+1) {
			return false
		}
	}
	return true
}

func (pr *c12pr) prove(at ssa.Instruction, goal lin, cx *linCtx) bool {
	return pr.proveAny(at, []lin{goal}, cx, 0)
}

// ---------------------------------------------------------------------------
// Part A.4  callee lower bounds with argument preconditions

// ensureLB adds, once, `call >= lo` facts for calls of in-scope functions that
// are not inlinable, where lo in {1,0} is proved inside the callee from the
// constant lower bounds its integer arguments have at this call site.
func (pr *c12pr) ensureLB() {
	if pr.lbDone {
		return
	}
	pr.lbDone = true
	if pr.k.building[pr.fn] {
		return
	}
	pr.k.building[pr.fn] = true
	defer delete(pr.k.building, pr.fn)
	allInstrs(pr.fn, func(in ssa.Instruction) {
		c, ok := in.(*ssa.Call)
		if !ok || !isIntType(c.Type()) || pr.inl[c] != nil {
			return
		}
		f := c.Call.StaticCallee()
		if f == nil || !pr.k.inScope[f] || f == pr.fn {
			return
		}
		pre := map[int]int64{}
		cx := pr.lp.newCtx(c)
		for i, a := range c.Call.Args {
			if i >= len(f.Params) || !isIntType(a.Type()) {
				continue
			}
			for _, lo := range []int64{1, 0} {
				if pr.prove(c, linConst(lo).sub(pr.lp.lin(a, cx)), nil) {
					pre[i] = lo
					break
				}
			}
		}
		if lo, ok := pr.k.retLB(f, pre); ok {
			pr.lp.pre = append(pr.lp.pre, linFact{linConst(lo).sub(linAtom(c)), fmt.Sprintf("result of %s >= %d (given its arguments here)", f.Name(), lo)})
		}
	})
}

func (k *c12kit) retLB(f *ssa.Function, pre map[int]int64) (int64, bool) {
	key := f.String()
	var idx []int
	for i := range pre {
		idx = append(idx, i)
	}
	sort.Ints(idx)
	for _, i := range idx {
		key += fmt.Sprintf("|%d>=%d", i, pre[i])
	}
	if r, ok := k.lbMemo[key]; ok {
		if r == nil {
			return 0, false
		}
		return *r, true
	}
	k.lbMemo[key] = nil
	if k.building[f] {
		return 0, false
	}
	pr := k.prover(f)
	cx := &linCtx{subst: map[ssa.Value]ssa.Value{}}
	for _, i := range idx {
		cx.extra = append(cx.extra, linFact{linConst(pre[i]).sub(linAtom(f.Params[i])), "argument lower bound at the call site"})
	}
	for _, lo := range []int64{1, 0} {
		all, n := true, 0
		allInstrs(f, func(in ssa.Instruction) {
			r, ok := in.(*ssa.Return)
			if !ok || !all {
				return
			}
			vals := retResults(r)
			if vals == nil {
				return
			}
			n++
			if len(vals) != 1 || !pr.prove(r, linConst(lo).sub(pr.lp.lin(vals[0], pr.lp.newCtx(r))), cx) {
				all = false
			}
		})
		if all && n > 0 {
			v := lo
			k.lbMemo[key] = &v
			return lo, true
		}
	}
	return 0, false
}

// retUBcond: every return of f is `<= param i`, or is taken only when
// `param i <= 0`.
func (k *c12kit) retUBcond(f *ssa.Function, i int) bool {
	key := fmt.Sprintf("%s|%d", f.String(), i)
	if r := k.ubMemo[key]; r != 0 {
		return r == 1
	}
	k.ubMemo[key] = 2
	if i >= len(f.Params) || !isIntType(f.Params[i].Type()) {
		return false
	}
	pr := k.prover(f)
	all, n := true, 0
	allInstrs(f, func(in ssa.Instruction) {
		r, ok := in.(*ssa.Return)
		if !ok || !all {
			return
		}
		vals := retResults(r)
		if vals == nil {
			return
		}
		n++
		if len(vals) != 1 || !isIntType(vals[0].Type()) {
			all = false
			return
		}
		cx := pr.lp.newCtx(r)
		pl := pr.lp.lin(f.Params[i], cx)
		if !pr.proveAny(r, []lin{pr.lp.lin(vals[0], cx).sub(pl), pl}, nil, 0) {
			all = false
		}
	})
	if all && n > 0 {
		k.ubMemo[key] = 1
		return true
	}
	return false
}

// ---------------------------------------------------------------------------
// Part A.5  lifting a parameter-only goal to every call site

func (k *c12kit) proveLift(fn *ssa.Function, at ssa.Instruction, alts []lin, cx *linCtx, hops int, trail *[]string) bool {
	pr := k.prover(fn)
	cp := make([]lin, len(alts))
	for i := range alts {
		cp[i] = pr.norm(alts[i])
	}
	if pr.proveAny(at, cp, cx, 0) {
		return true
	}
	if hops <= 0 || len(cp) != 1 {
		return false
	}
	goal := cp[0]
	// an atom can be re-expressed at a call site when it is a parameter, or the
	// length / capacity of a parameter
	paramIdx := func(v ssa.Value) int {
		if pa, ok := v.(*ssa.Parameter); ok && pa.Parent() == fn {
			for i, q := range fn.Params {
				if q == pa {
					return i
				}
			}
		}
		return -1
	}
	liftable := func(l lin) bool {
		for a := range l.c {
			if m, ok := a.(*lenMarker); ok {
				if paramIdx(m.x) < 0 {
					return false
				}
				continue
			}
			if paramIdx(a) < 0 {
				return false
			}
		}
		return true
	}
	if !liftable(goal) {
		return false
	}
	if !k.liftable(fn) {
		*trail = append(*trail, c12name(fn)+" can be called from outside the repository")
		return false
	}
	sites := k.callers[fn]
	if len(sites) == 0 {
		*trail = append(*trail, c12name(fn)+" has no call site")
		return false
	}
	// the path condition of `at`, as far as it speaks about the parameters only,
	// travels with the goal as a hypothesis
	var hyp []linFact
	for _, f := range pr.lp.gatherFacts(goal, pr.ctxAt(at, cx)) {
		if len(f.e.c) > 0 && liftable(f.e) {
			hyp = append(hyp, f)
		}
	}
	for _, cs := range sites {
		caller := cs.Parent()
		cpr := k.prover(caller)
		ccx := cpr.lp.newCtx(cs)
		tr := func(l lin) lin {
			g := linConst(l.k)
			for a, c := range l.c {
				if m, ok := a.(*lenMarker); ok {
					arg := cs.Common().Args[paramIdx(m.x)]
					if m.cap {
						g = g.addScaled(cpr.lp.capOf(arg, ccx), c)
					} else {
						g = g.addScaled(cpr.lp.lenOf(arg, ccx), c)
					}
					continue
				}
				g = g.addScaled(cpr.lp.lin(cs.Common().Args[paramIdx(a)], ccx), c)
			}
			return g
		}
		hcx := &linCtx{subst: map[ssa.Value]ssa.Value{}}
		for _, f := range hyp {
			hcx.extra = append(hcx.extra, linFact{tr(f.e), "callee path condition: " + f.why})
		}
		if !k.proveLift(caller, cs, []lin{tr(goal)}, hcx, hops-1, trail) {
			*trail = append(*trail, "not established at the call in "+c12name(caller))
			return false
		}
	}
	return true
}

// ---------------------------------------------------------------------------
// Part A.6  "never zero" analysis (divisors)

func c12intBits(t types.Type) int {
	b, ok := t.Underlying().(*types.Basic)
	if !ok {
		return 0
	}
	switch b.Kind() {
	case types.Int8, types.Uint8:
		return 8
	case types.Int16, types.Uint16:
		return 16
	case types.Int32, types.Uint32:
		return 32
	case types.Int64, types.Uint64, types.Int, types.Uint, types.Uintptr:
		return 64
	}
	return 0
}

// nonZero: v != 0 whenever control reaches `at` in fn.
func (k *c12kit) nonZero(fn *ssa.Function, at ssa.Instruction, v ssa.Value, hops int, trail *[]string) bool {
	pr := k.prover(fn)
	v = resolve(v)
	switch x := v.(type) {
	case *ssa.Const:
		if n, ok := constInt(x); ok {
			return n != 0
		}
		return false
	case *ssa.Convert:
		if sb, db := c12intBits(x.X.Type()), c12intBits(x.Type()); sb > 0 && db >= sb {
			return k.nonZero(fn, at, x.X, hops, trail)
		}
	case *ssa.ChangeType:
		return k.nonZero(fn, at, x.X, hops, trail)
	}
	if isIntType(v.Type()) {
		l := pr.lp.lin(v, pr.lp.newCtx(at))
		if pr.proveAny(at, []lin{linConst(1).sub(l), l.add(linConst(1))}, nil, 0) {
			return true
		}
	}
	// a dominating `w != 0` edge on the same value
	rv := pr.lp.canon(v)
	for _, er := range pr.lp.domEdges(at.Block()) {
		cond, pol, ok := edgeFact(er.b, er.i)
		if !ok {
			continue
		}
		bo, ok := cond.(*ssa.BinOp)
		if !ok || (bo.Op != token.NEQ && bo.Op != token.EQL) {
			continue
		}
		if (bo.Op == token.NEQ) != pol {
			continue
		}
		var w ssa.Value
		if isConstInt(bo.Y, 0) {
			w = bo.X
		} else if isConstInt(bo.X, 0) {
			w = bo.Y
		} else {
			continue
		}
		if pr.lp.canon(w) == rv {
			return true
		}
	}
	switch x := v.(type) {
	case *ssa.Phi:
		for i, e := range x.Edges {
			pred := x.Block().Preds[i]
			if !k.nonZero(fn, pred.Instrs[len(pred.Instrs)-1], e, hops, trail) {
				return false
			}
		}
		return len(x.Edges) > 0
	case *ssa.Parameter:
		if hops <= 0 || x.Parent() != fn {
			return false
		}
		if !k.liftable(fn) {
			*trail = append(*trail, c12name(fn)+" can be called from outside the repository")
			return false
		}
		idx := -1
		for i, q := range fn.Params {
			if q == x {
				idx = i
			}
		}
		sites := k.callers[fn]
		if idx < 0 {
			return false
		}
		for _, cs := range sites {
			if !k.nonZero(cs.Parent(), cs, cs.Common().Args[idx], hops-1, trail) {
				*trail = append(*trail, fmt.Sprintf("argument %s may be zero at the call in %s (%s)", x.Name(), c12name(cs.Parent()), k.p.InstrPos(cs)))
				return false
			}
		}
		return true // no call site: vacuous
	case *ssa.Call:
		if f := x.Call.StaticCallee(); f != nil && k.inScope[f] {
			return k.neverZero(f)
		}
	}
	return false
}

// neverZero: no return of f yields 0.
func (k *c12kit) neverZero(f *ssa.Function) bool {
	if r := k.nzMemo[f]; r != 0 {
		return r == 1
	}
	k.nzMemo[f] = 2
	all, n := true, 0
	var trail []string
	allInstrs(f, func(in ssa.Instruction) {
		r, ok := in.(*ssa.Return)
		if !ok || !all {
			return
		}
		vals := retResults(r)
		if vals == nil {
			return
		}
		n++
		if len(vals) != 1 || !k.nonZero(f, r, vals[0], 0, &trail) {
			all = false
		}
	})
	if all && n > 0 {
		k.nzMemo[f] = 1
		return true
	}
	return false
}

// ---------------------------------------------------------------------------
// small expression printer for obligation keys / messages

func c12expr(v ssa.Value, d int) string {
	if v == nil {
		return ""
	}
	if d > 4 {
		return "…"
	}
	v = resolve(v)
	switch x := v.(type) {
	case *ssa.Parameter:
		if f := x.Parent(); f != nil && f.Signature.Recv() != nil && len(f.Params) > 0 && f.Params[0] == x {
			return "recv"
		}
		return x.Name()
	case *ssa.Const:
		if x.Value == nil {
			return "nil"
		}
		return x.Value.ExactString()
	case *ssa.BinOp:
		return "(" + c12expr(x.X, d+1) + x.Op.String() + c12expr(x.Y, d+1) + ")"
	case *ssa.UnOp:
		if x.Op == token.MUL {
			if fa, ok := x.X.(*ssa.FieldAddr); ok {
				return c12expr(fa.X, d+1) + "." + structField(fa.X.Type(), fa.Field).Name()
			}
			if g, ok := x.X.(*ssa.Global); ok {
				return g.Name()
			}
			return "*" + c12expr(x.X, d+1)
		}
		return x.Op.String() + c12expr(x.X, d+1)
	case *ssa.FieldAddr:
		return "&" + c12expr(x.X, d+1) + "." + structField(x.X.Type(), x.Field).Name()
	case *ssa.Field:
		return c12expr(x.X, d+1) + "." + structField(x.X.Type(), x.Field).Name()
	case *ssa.Convert:
		return c12expr(x.X, d+1)
	case *ssa.ChangeType:
		return c12expr(x.X, d+1)
	case *ssa.Call:
		name := "call"
		if b, ok := x.Call.Value.(*ssa.Builtin); ok {
			name = b.Name()
		} else if f := x.Call.StaticCallee(); f != nil {
			name = c12origin(f).Name()
		} else if x.Call.IsInvoke() {
			name = x.Call.Method.Name()
		}
		var as []string
		for _, a := range x.Call.Args {
			as = append(as, c12expr(a, d+1))
		}
		return name + "(" + strings.Join(as, ",") + ")"
	case *ssa.Phi:
		var as []string
		for _, e := range x.Edges {
			as = append(as, c12expr(e, d+1))
		}
		return "φ(" + strings.Join(as, ",") + ")"
	case *ssa.Alloc:
		return "new"
	case *ssa.Global:
		return x.Name()
	case *ssa.IndexAddr:
		return "&" + c12expr(x.X, d+1) + "[" + c12expr(x.Index, d+1) + "]"
	case *ssa.Extract:
		return c12expr(x.Tuple, d+1) + "#" + fmt.Sprint(x.Index)
	}
	return strings.TrimPrefix(fmt.Sprintf("%T", v), "*ssa.")
}

// c12keys hands out unique obligation keys.
type c12keys map[string]int

func (m c12keys) get(base string) string {
	m[base]++
	if m[base] > 1 {
		return fmt.Sprintf("%s#%d", base, m[base])
	}
	return base
}

// ---------------------------------------------------------------------------
// Part B  rules

type c12ctx struct {
	k      *c12kit
	c      *Check
	p      *Prog
	keys   c12keys
	bbrFns []*ssa.Function
	sender types.Type // *bbrSender
	fCW    *types.Var
	fMin   *types.Var
	fMax   *types.Var
	fInit  *types.Var
	fRW    *types.Var
	fState *types.Var
	fMDS   *types.Var
	ctors  map[*ssa.Function]bool
	// the constant recoveryState has outside recovery (the constructor's value)
	notInRecovery int64
}

func (x *c12ctx) storesTo(fn *ssa.Function, f *types.Var) []*ssa.Store {
	var out []*ssa.Store
	allInstrs(fn, func(in ssa.Instruction) {
		if st, ok := in.(*ssa.Store); ok {
			if fa, ok := st.Addr.(*ssa.FieldAddr); ok {
				if g := structField(fa.X.Type(), fa.Field); g != nil && g.Origin() == f.Origin() {
					out = append(out, st)
				}
			}
		}
	})
	return out
}

func c12root(st *ssa.Store) ssa.Value { return st.Addr.(*ssa.FieldAddr).X }

func (x *c12ctx) returns(fn *ssa.Function) []*ssa.Return {
	var out []*ssa.Return
	allInstrs(fn, func(in ssa.Instruction) {
		if r, ok := in.(*ssa.Return); ok && fn.Recover != r.Block() {
			out = append(out, r)
		}
	})
	return out
}

// isEvent: the instruction may change field f (direct store or a call that may store it).
func (x *c12ctx) isEvent(in ssa.Instruction, f *types.Var) bool {
	if st, ok := in.(*ssa.Store); ok {
		if fa, ok := st.Addr.(*ssa.FieldAddr); ok {
			if g := structField(fa.X.Type(), fa.Field); g != nil && g.Origin() == f.Origin() {
				return true
			}
		}
		return false
	}
	if ci, ok := in.(ssa.CallInstruction); ok {
		return x.k.callMods(ci, f)
	}
	return false
}

// lastFor: the returns that S's value of field f survives to.
func (x *c12ctx) lastFor(S *ssa.Store, f *types.Var) []*ssa.Return {
	var out []*ssa.Return
	for _, in := range reachFrom(S.Parent(), S, func(i ssa.Instruction) bool { return x.isEvent(i, f) }, nil) {
		if r, ok := in.(*ssa.Return); ok {
			out = append(out, r)
		}
	}
	return out
}

func (x *c12ctx) writes(fn *ssa.Function, fs ...*types.Var) bool {
	for _, f := range fs {
		if len(x.storesTo(fn, f)) > 0 {
			return true
		}
	}
	return false
}

// boundFacts: the window-bound invariant min <= initial <= max at E.
func (x *c12ctx) boundFacts(pr *c12pr, E ssa.Instruction, root ssa.Value) []linFact {
	mn, in, mx := pr.fieldAt(E, root, x.fMin), pr.fieldAt(E, root, x.fInit), pr.fieldAt(E, root, x.fMax)
	return []linFact{{mn.sub(in), "window bounds: min <= initial"}, {in.sub(mx), "window bounds: initial <= max"}, {mn.sub(mx), "window bounds: min <= max"}}
}

type c12storeVerdict struct {
	st            *ssa.Store
	lowerOK, upOK bool
	boundsMoved   string
	trail         []string
}

// judgeStore decides whether the value S leaves in a window field is within
// [minCongestionWindow, maxCongestionWindow] (lower only when !upper).
func (x *c12ctx) judgeStore(S *ssa.Store, f *types.Var, upper bool) (c12storeVerdict, bool) {
	fn := S.Parent()
	v := c12storeVerdict{st: S, lowerOK: true, upOK: true}
	rets := x.lastFor(S, f)
	if len(rets) == 0 {
		return v, false // overwritten on every path: not an output
	}
	pr := x.k.prover(fn)
	root := c12root(S)
	boundWriter := x.writes(fn, x.fMin, x.fMax, x.fInit)
	var points []ssa.Instruction
	if boundWriter {
		for _, r := range rets {
			points = append(points, r)
		}
	} else {
		points = []ssa.Instruction{S}
		for _, bf := range []*types.Var{x.fMin, x.fMax} {
			for _, d := range pr.fm.defs[bf.Origin()] {
				if pr.fm.after(S, d) {
					v.boundsMoved = bf.Name() + " is redefined after the store (" + x.p.InstrPos(d) + ")"
				}
			}
		}
	}
	val := pr.lp.lin(S.Val, pr.lp.newCtx(S))
	// the stored value is the result of a helper method on the same receiver
	// that does not touch the bounds: judge the helper's returns instead
	if call, ok := resolve(S.Val).(*ssa.Call); ok && !boundWriter {
		if lo, hi, ok := x.judgeHelper(call, S, root, upper); ok && lo && hi {
			return v, true
		}
	}
	for _, E := range points {
		cx := &linCtx{subst: map[ssa.Value]ssa.Value{}}
		if !boundWriter {
			cx.extra = x.boundFacts(pr, E, root)
		}
		// a goal not provable at the store itself may be enforced afterwards by a
		// clamp written as a guarded assignment (`if w < min { w = min }`): the
		// stored value then only survives to a return across the guard's other edge
		t0 := len(v.trail)
		lowGoal := pr.fieldAt(E, root, x.fMin).sub(val)
		if !x.k.proveLift(fn, E, []lin{lowGoal}, cx, 3, &v.trail) {
			if !boundWriter && x.survivesGuarded(pr, S, f, lowGoal, cx) {
				v.trail = v.trail[:t0]
			} else {
				v.lowerOK = false
			}
		}
		if upper {
			t0 = len(v.trail)
			upGoal := val.sub(pr.fieldAt(E, root, x.fMax))
			if !x.k.proveLift(fn, E, []lin{upGoal}, cx, 3, &v.trail) {
				if !boundWriter && x.survivesGuarded(pr, S, f, upGoal, cx) {
					v.trail = v.trail[:t0]
				} else {
					v.upOK = false
				}
			}
		}
	}
	return v, true
}

// survivesGuarded: the goal `goal <= 0` about the value S stores in field f holds
// on every path on which that value survives from S to a return (no store to f,
// no call that may store it): each such path crosses a branch edge whose
// condition, read with S's value in place of the loads of the stored location
// that can only execute after S, implies the goal together with the facts valid
// at S.  This is the clamp-by-assignment form of `w = max(w, lo)`:
// `if recv.w < lo { recv.w = lo }` – the clamping store is an event (judged on
// its own), the other edge carries `recv.w >= lo` for the surviving value.
func (x *c12ctx) survivesGuarded(pr *c12pr, S *ssa.Store, f *types.Var, goal lin, base *linCtx) bool {
	fn := S.Parent()
	loc, ok := c12locOfAddr(S.Addr)
	if !ok || pr.fm.hasDefer {
		return false
	}
	isEv := func(i ssa.Instruction) bool { return x.isEvent(i, f) }
	after := map[ssa.Instruction]bool{}
	for _, in := range reachFrom(fn, S, isEv, nil) {
		after[in] = true
		// values of different loop iterations would be mixed up: no loops in the region
		if pr.fm.idx[in] == 0 && c12loopHeader(in.Block()) {
			return false
		}
	}
	// loads of the stored location that, on a path from S, can only see S's value
	sees := map[ssa.Value]bool{}
	for _, L := range pr.fm.loads {
		if l, ok := c12locOfAddr(L.X); ok && c12sameLoc(l, loc) && after[L] && !pr.fm.after(L, S) {
			sees[L] = true
		}
	}
	if len(sees) == 0 {
		return false
	}
	subst := map[ssa.Value]ssa.Value{}
	if base != nil {
		for a, b := range base.subst {
			subst[a] = b
		}
	}
	for L := range sees {
		if r := pr.lp.canon(L); sees[r] {
			subst[r] = S.Val
		}
	}
	memo := map[ssa.Value]map[bool]bool{}
	implies := func(cond ssa.Value, pol bool) bool {
		if r, ok := memo[cond][pol]; ok {
			return r
		}
		if memo[cond] == nil {
			memo[cond] = map[bool]bool{}
		}
		memo[cond][pol] = false
		cx := &linCtx{at: S, subst: subst}
		if base != nil {
			cx.extra = append(cx.extra, base.extra...)
		}
		facts := pr.condFactsX(cond, pol, cx)
		if len(facts) == 0 {
			return false
		}
		cx.extra = append(cx.extra, facts...)
		r := pr.proveAny(S, []lin{goal.clone()}, cx, 0)
		memo[cond][pol] = r
		return r
	}
	for _, in := range reachFrom(fn, S, isEv, implies) {
		if _, isRet := in.(*ssa.Return); isRet {
			return false
		}
	}
	return true
}

// judgeHelper: S stores the result of g(recv, …), g an in-scope function called
// on S's own receiver that defines none of the bound fields, with no definition
// of the bounds between the call and S.  Then the bounds g sees are the bounds
// at S, and the obligation is decided on g's returns.
func (x *c12ctx) judgeHelper(call *ssa.Call, S *ssa.Store, root ssa.Value, upper bool) (lo, hi, ok bool) {
	g := call.Call.StaticCallee()
	if g == nil || !x.k.inScope[g] || len(g.Params) == 0 || len(call.Call.Args) == 0 || g == S.Parent() {
		return false, false, false
	}
	if resolve(call.Call.Args[0]) != resolve(root) {
		return false, false, false
	}
	for _, f := range []*types.Var{x.fMin, x.fMax, x.fInit} {
		if x.k.mod[g][f.Origin()] {
			return false, false, false
		}
	}
	fm := x.k.mem(S.Parent())
	if !fm.dom(call, S) || !fm.clean(call, S, append(fm.defsFor(c12loc{fields: []*types.Var{x.fMin}}), fm.defsFor(c12loc{fields: []*types.Var{x.fMax}})...)) {
		return false, false, false
	}
	gpr := x.k.prover(g)
	recv := ssa.Value(g.Params[0])
	lo, hi = true, true
	n := 0
	for _, r := range x.returns(g) {
		vals := retResults(r)
		if len(vals) != 1 || !isIntType(vals[0].Type()) {
			return false, false, false
		}
		n++
		cx := &linCtx{subst: map[ssa.Value]ssa.Value{}, extra: x.boundFacts(gpr, r, recv)}
		val := gpr.lp.lin(vals[0], gpr.lp.newCtx(r))
		if !gpr.proveAny(r, []lin{gpr.fieldAt(r, recv, x.fMin).sub(val)}, cx, 0) {
			lo = false
		}
		if upper && !gpr.proveAny(r, []lin{val.sub(gpr.fieldAt(r, recv, x.fMax))}, cx, 0) {
			hi = false
		}
	}
	return lo, hi, n > 0
}

func c12trail(t []string) string {
	if len(t) == 0 {
		return ""
	}
	return " [" + strings.Join(t, "; ") + "]"
}

// ---- R1 --------------------------------------------------------------------

func (x *c12ctx) ruleR1() {
	c, p := x.c, x.p
	const r1 = "C12.R1 in every method of the BBR sender that stores congestionWindow, the value left in the field on every path to return is proved >= minCongestionWindow and <= maxCongestionWindow (linear prover over the dominating guards, min/max builtins, clamp-by-assignment; loads of a field are the same value only if no store and no call that may store it lies between); GetCongestionWindow returns only values inside the bounds"
	nWriters, nStores := 0, 0
	for _, fn := range x.bbrFns {
		sts := x.storesTo(fn, x.fCW)
		if len(sts) == 0 {
			continue
		}
		nWriters++
		c.Saw(c12name(fn))
		for _, S := range sts {
			v, isOut := x.judgeStore(S, x.fCW, true)
			if !isOut {
				continue
			}
			nStores++
			key := x.keys.get("C12.R1:" + c12name(fn) + ":congestionWindow=" + c12expr(S.Val, 0))
			var miss []string
			if !v.lowerOK {
				miss = append(miss, "not proved >= minCongestionWindow (window can fall below four datagrams)")
			}
			if !v.upOK {
				miss = append(miss, "not proved <= maxCongestionWindow")
			}
			if v.boundsMoved != "" {
				miss = append(miss, v.boundsMoved)
			}
			c.Req(len(miss) == 0, key, r1, p.InstrPos(S), "the value this store leaves in congestionWindow at return is "+strings.Join(miss, "; ")+c12trail(v.trail))
		}
	}
	c.Floor("C12.R1:writers", nWriters, 3)
	c.Floor("C12.R1:stores", nStores, 3)

	// R1b: minCongestionWindow is at least four datagrams wherever either field is (re)defined
	const r1b = "C12.R1b at the return of every function that stores minCongestionWindow or maxDatagramSize, minCongestionWindow >= 4 x maxDatagramSize (the statement's `four datagrams`); the initial window bounds satisfy min <= initial <= max at every constructor call"
	nb := 0
	for _, fn := range x.bbrFns {
		var sts []*ssa.Store
		sts = append(sts, x.storesTo(fn, x.fMin)...)
		sts = append(sts, x.storesTo(fn, x.fMDS)...)
		if len(sts) == 0 {
			continue
		}
		nb++
		c.Saw(c12name(fn))
		pr := x.k.prover(fn)
		root := c12root(sts[0])
		ok := true
		var trail []string
		for _, r := range x.returns(fn) {
			g := linConst(0).addScaled(pr.fieldAt(r, root, x.fMDS), 4).sub(pr.fieldAt(r, root, x.fMin))
			if !x.k.proveLift(fn, r, []lin{g}, nil, 3, &trail) {
				ok = false
			}
		}
		c.Req(ok, "C12.R1b:"+c12name(fn)+":min>=4*datagram", r1b, p.Pos(fn.Pos()), "minCongestionWindow is not proved >= 4*maxDatagramSize when this function returns"+c12trail(trail))
		if x.ctors[fn] {
			ok2 := true
			var trail2 []string
			for _, r := range x.returns(fn) {
				mn, in, mx := pr.fieldAt(r, root, x.fMin), pr.fieldAt(r, root, x.fInit), pr.fieldAt(r, root, x.fMax)
				if !x.k.proveLift(fn, r, []lin{mn.sub(in)}, nil, 3, &trail2) || !x.k.proveLift(fn, r, []lin{in.sub(mx)}, nil, 3, &trail2) {
					ok2 = false
				}
			}
			c.Req(ok2, "C12.R1b:"+c12name(fn)+":min<=initial<=max", r1b, p.Pos(fn.Pos()), "the constructor does not establish minCongestionWindow <= initialCongestionWindow <= maxCongestionWindow"+c12trail(trail2))
		}
	}
	c.Floor("C12.R1b:definers", nb, 2)
}

// inRecoveryEdge accepts an edge on which recoveryState != notInRecovery.
func (x *c12ctx) inRecoveryEdge(recv ssa.Value) EdgePred {
	isStateTest := func(v ssa.Value, base ssa.Value) (op token.Token, ok bool) {
		bo, isB := v.(*ssa.BinOp)
		if !isB || (bo.Op != token.NEQ && bo.Op != token.EQL) {
			return 0, false
		}
		ld, cst := bo.X, bo.Y
		if _, isC := resolve(ld).(*ssa.Const); isC {
			ld, cst = cst, ld
		}
		if n, isN := constInt(cst); !isN || n != x.notInRecovery {
			return 0, false
		}
		u, isU := resolve(ld).(*ssa.UnOp)
		if !isU || u.Op != token.MUL {
			return 0, false
		}
		fa, isF := u.X.(*ssa.FieldAddr)
		if !isF || structField(fa.X.Type(), fa.Field).Origin() != x.fState.Origin() || resolve(fa.X) != resolve(base) {
			return 0, false
		}
		return bo.Op, true
	}
	return func(cond ssa.Value, pol bool) bool {
		if op, ok := isStateTest(cond, recv); ok {
			return (op == token.NEQ) == pol
		}
		// a one-block predicate method on the same receiver
		if call, ok := cond.(*ssa.Call); ok {
			f := call.Call.StaticCallee()
			if f != nil && x.k.inScope[f] && len(f.Blocks) == 1 && len(f.Params) == 1 && len(call.Call.Args) == 1 && resolve(call.Call.Args[0]) == resolve(recv) {
				if r, ok := f.Blocks[0].Instrs[len(f.Blocks[0].Instrs)-1].(*ssa.Return); ok && len(r.Results) == 1 {
					if op, ok := isStateTest(r.Results[0], f.Params[0]); ok {
						return (op == token.NEQ) == pol
					}
				}
			}
		}
		return false
	}
}

func (x *c12ctx) ruleR1c(gcw *ssa.Function) {
	c, p := x.c, x.p
	const r1c = "C12.R1c every value GetCongestionWindow returns is >= minCongestionWindow and <= maxCongestionWindow, given congestionWindow in bounds (R1) and recoveryWindow >= minCongestionWindow while in recovery (R2); recoveryWindow may only be used on the in-recovery edge"
	c.Saw(c12name(gcw))
	pr := x.k.prover(gcw)
	recv := ssa.Value(gcw.Params[0])
	n := 0
	for _, r := range x.returns(gcw) {
		vals := retResults(r)
		if len(vals) != 1 {
			continue
		}
		n++
		cx := &linCtx{subst: map[ssa.Value]ssa.Value{}}
		cx.extra = x.boundFacts(pr, r, recv)
		mn, mx := pr.fieldAt(r, recv, x.fMin), pr.fieldAt(r, recv, x.fMax)
		cw := pr.fieldAt(r, recv, x.fCW)
		cx.extra = append(cx.extra, linFact{mn.sub(cw), "R1: congestionWindow >= min"}, linFact{cw.sub(mx), "R1: congestionWindow <= max"})
		// recoveryWindow is only maintained while in recovery: its floor may be used
		// when this return, or every read of the field (in a function that never
		// defines it), lies behind the in-recovery edge
		rwGuarded := len(pr.fm.defs[x.fRW.Origin()]) == 0
		nRW := 0
		for _, L := range pr.fm.loads {
			fa := L.X.(*ssa.FieldAddr)
			if structField(fa.X.Type(), fa.Field).Origin() == x.fRW.Origin() {
				nRW++
				if !guardedBy(L, x.inRecoveryEdge(recv)) {
					rwGuarded = false
				}
			}
		}
		if guardedBy(r, x.inRecoveryEdge(recv)) || (rwGuarded && nRW > 0) {
			cx.extra = append(cx.extra, linFact{mn.sub(pr.fieldAt(r, recv, x.fRW)), "R2: recoveryWindow >= min while in recovery"})
		}
		val := pr.lp.lin(vals[0], pr.lp.newCtx(r))
		lo := pr.proveAny(r, []lin{mn.sub(val)}, cx, 0)
		hi := pr.proveAny(r, []lin{val.sub(mx)}, cx, 0)
		key := x.keys.get("C12.R1c:GetCongestionWindow:return " + c12expr(vals[0], 0))
		what := "below minCongestionWindow"
		if lo {
			what = "above maxCongestionWindow"
		}
		c.Req(lo && hi, key, r1c, p.InstrPos(r), "the returned window "+c12expr(vals[0], 0)+" is not proved in bounds (may be "+what+"; recoveryWindow is only maintained while in recovery)")
	}
	c.Floor("C12.R1c:returns", n, 1)
}

// ---- R2 --------------------------------------------------------------------

// refloor: G leaves recoveryWindow >= minCongestionWindow on every return that
// is not taken on the not-in-recovery edge.
func (x *c12ctx) refloor(G *ssa.Function, deferred map[*ssa.Store]bool) bool {
	if len(G.Params) == 0 || len(x.storesTo(G, x.fRW)) == 0 {
		return false
	}
	for _, st := range x.storesTo(G, x.fRW) {
		if deferred[st] {
			return false
		}
	}
	inRec := x.inRecoveryEdge(G.Params[0])
	notInRec := func(cond ssa.Value, pol bool) bool { return inRec(cond, !pol) }
	isRW := func(in ssa.Instruction) bool {
		st, ok := in.(*ssa.Store)
		return ok && x.isEvent(st, x.fRW)
	}
	for _, in := range reachFrom(G, nil, isRW, notInRec) {
		if _, ok := in.(*ssa.Return); ok {
			return false
		}
	}
	return true
}

func (x *c12ctx) ruleR2() {
	c, p := x.c, x.p
	const r2 = "C12.R2 every value left in recoveryWindow at a method's return is proved >= minCongestionWindow; a store that is not (the reset to 0 on entering recovery, or a change of recoveryState to an in-recovery value) is accepted only if every path from it to the end of the event passes a call to a function that re-floors the window on all of its in-recovery returns"
	deferred := map[*ssa.Store]bool{}
	type ev struct {
		in   ssa.Instruction
		what string
		key  string
	}
	var events []ev
	nStores := 0
	for _, fn := range x.bbrFns {
		for _, S := range x.storesTo(fn, x.fRW) {
			v, isOut := x.judgeStore(S, x.fRW, false)
			if !isOut {
				continue
			}
			nStores++
			c.Saw(c12name(fn))
			key := x.keys.get("C12.R2:" + c12name(fn) + ":recoveryWindow=" + c12expr(S.Val, 0))
			if v.lowerOK && v.boundsMoved == "" {
				c.OK(key, r2, p.InstrPos(S))
				continue
			}
			deferred[S] = true
			events = append(events, ev{S, "recoveryWindow = " + c12expr(S.Val, 0) + " is not proved >= minCongestionWindow" + c12trail(v.trail), key})
		}
		if x.ctors[fn] {
			continue
		}
		for _, S := range x.storesTo(fn, x.fState) {
			if n, ok := constInt(S.Val); ok && n == x.notInRecovery {
				continue
			}
			events = append(events, ev{S, "recoveryState becomes an in-recovery value", x.keys.get("C12.R2:" + c12name(fn) + ":recoveryState=" + c12expr(S.Val, 0))})
		}
	}
	c.Floor("C12.R2:stores", nStores, 3)
	refloorMemo := map[*ssa.Function]bool{}
	hasEvent := map[*ssa.Function]bool{}
	for _, e := range events {
		hasEvent[e.in.Parent()] = true
	}
	var isRefloorCall func(in ssa.Instruction) bool
	isRefloorCall = func(in ssa.Instruction) bool {
		ci, ok := in.(*ssa.Call)
		if !ok {
			return false
		}
		G := ci.Call.StaticCallee()
		if G == nil || !x.k.inScope[G] {
			return false
		}
		r, seen := refloorMemo[G]
		if !seen {
			refloorMemo[G] = false
			// G re-floors itself, or every path through G passes a call that does
			r = x.refloor(G, deferred) || (!hasEvent[G] && len(x.returns(G)) > 0 && len(exitsReachableAvoiding(G, nil, isRefloorCall)) == 0)
			refloorMemo[G] = r
		}
		return r
	}
	// followed: every path from `from` to a return of its function passes a re-floor call;
	// otherwise the obligation moves to every call site of the function.
	var followed func(from ssa.Instruction, hops int, why *string) bool
	followed = func(from ssa.Instruction, hops int, why *string) bool {
		fn := from.Parent()
		if len(exitsReachableAvoiding(fn, from, isRefloorCall)) == 0 {
			return true
		}
		if hops <= 0 || !x.k.liftable(fn) || len(x.k.callers[fn]) == 0 {
			*why = "a path from here through " + c12name(fn) + " reaches the end of the event without a call that re-floors recoveryWindow"
			return false
		}
		for _, cs := range x.k.callers[fn] {
			if !followed(cs, hops-1, why) {
				return false
			}
		}
		return true
	}
	nDef := 0
	for _, e := range events {
		nDef++
		why := ""
		ok := followed(e.in, 2, &why)
		c.Req(ok, e.key, r2, p.InstrPos(e.in), e.what+" and "+why+" (GetCongestionWindow would return min(cwnd, recoveryWindow) below four datagrams)")
	}
	c.Floor("C12.R2:deferred", nDef, 1)
	nG := 0
	for _, r := range refloorMemo {
		if r {
			nG++
		}
	}
	c.Floor("C12.R2:refloor-functions", nG, 1)
}

// closureTarget: the function a func value denotes (closure literal or bound method).
func c12closureTarget(v ssa.Value) *ssa.Function {
	v = resolve(v)
	switch x := v.(type) {
	case *ssa.Function:
		return x
	case *ssa.MakeClosure:
		f, _ := x.Fn.(*ssa.Function)
		if f == nil {
			return nil
		}
		if f.Synthetic != "" && len(f.Blocks) > 0 {
			var target *ssa.Function
			allInstrs(f, func(in ssa.Instruction) {
				if ci, ok := in.(ssa.CallInstruction); ok {
					if g := ci.Common().StaticCallee(); g != nil {
						target = g
					}
				}
			})
			if target != nil {
				return target
			}
		}
		return f
	}
	return nil
}

// providers: the functions that can be the value of func-typed struct field f.
// ok=false when a stored value cannot be traced to a function.
func (x *c12ctx) providers(f *types.Var) (fns []*ssa.Function, ok bool) {
	ok = true
	var trace func(v ssa.Value, hops int)
	trace = func(v ssa.Value, hops int) {
		if t := c12closureTarget(v); t != nil {
			fns = append(fns, t)
			return
		}
		if pa, isP := resolve(v).(*ssa.Parameter); isP && hops > 0 && x.k.liftable(pa.Parent()) {
			for i, q := range pa.Parent().Params {
				if q == pa {
					for _, cs := range x.k.callers[pa.Parent()] {
						trace(cs.Common().Args[i], hops-1)
					}
					return
				}
			}
		}
		ok = false
	}
	for _, fn := range x.k.scope {
		for _, st := range x.storesTo(fn, f) {
			trace(st.Val, 2)
		}
	}
	return
}

// ---- R3 --------------------------------------------------------------------

const c12MinPacerBps = 65536 // the statement's 64 KB/s

func (x *c12ctx) ruleR3() map[*ssa.Function]bool {
	c, p := x.c, x.p
	const r3 = "C12.R3 every return of the bandwidth function the BBR sender hands to the pacer is proved >= 65536 bytes/s (64 KB/s): the pacer's divisions by the bandwidth and its budget arithmetic never see zero"
	good := map[*ssa.Function]bool{}
	fGet := p.Field(pCommon, "Pacer", "getBandwidth")
	if fGet == nil {
		c.Unres("field common.Pacer.getBandwidth")
		return good
	}
	provs, traced := x.providers(fGet)
	if !traced {
		c.Undecided("C12.R3:providers", r3, "", "a value stored in Pacer.getBandwidth cannot be traced to a function")
	}
	n := 0
	seen := map[*ssa.Function]bool{}
	for _, f := range provs {
		if seen[f] || !c12inPkgs(f, pBBR) {
			continue // the Brutal provider is C11.R3's obligation
		}
		seen[f] = true
		n++
		c.Saw(c12name(f))
		pr := x.k.prover(f)
		ok, bad := true, ""
		for _, r := range x.returns(f) {
			vals := retResults(r)
			if len(vals) != 1 || !isIntType(vals[0].Type()) || !pr.prove(r, linConst(c12MinPacerBps).sub(pr.lp.lin(vals[0], pr.lp.newCtx(r))), nil) {
				ok = false
				if len(vals) == 1 {
					bad = c12expr(vals[0], 0) + " at " + p.InstrPos(r)
				}
			}
		}
		good[f] = ok
		c.Req(ok, "C12.R3:"+c12name(f)+":floor", r3, p.Pos(f.Pos()), "return value "+bad+" is not proved >= 65536: the pacer bandwidth can drop below 64 KB/s (zero makes the pacer divide by zero / stall the send loop)")
	}
	c.Floor("C12.R3:providers", n, 1)
	return good
}

// ---- R4 --------------------------------------------------------------------

func (x *c12ctx) ruleR4(onEvent *ssa.Function) {
	c, p := x.c, x.p
	const r4 = "C12.R4 every normal path through OnCongestionEventEx passes a call that (on every path through the callee, transitively) reaches RemoveUpTo on the sampler's per-packet state queue: sent-packet bookkeeping is pruned on every congestion event"
	fMap := p.Field(pBBR, "bandwidthSampler", "connectionStateMap")
	if fMap == nil {
		c.Unres("field bbr.bandwidthSampler.connectionStateMap")
		return
	}
	var qNamed *types.Named
	if pt, ok := fMap.Type().Underlying().(*types.Pointer); ok {
		qNamed, _ = pt.Elem().(*types.Named)
	} else {
		qNamed, _ = fMap.Type().(*types.Named)
	}
	if qNamed == nil {
		c.Unres("type of bandwidthSampler.connectionStateMap")
		return
	}
	targets := map[*ssa.Function]bool{}
	for _, fn := range x.k.scope {
		if fn.Name() != "RemoveUpTo" && !(fn.Origin() != nil && fn.Origin().Name() == "RemoveUpTo") {
			continue
		}
		if rv := fn.Signature.Recv(); rv != nil {
			t := rv.Type()
			if pt, ok := t.(*types.Pointer); ok {
				t = pt.Elem()
			}
			if nt, ok := t.(*types.Named); ok && nt.Origin() == qNamed.Origin() {
				targets[fn] = true
			}
		}
	}
	if len(targets) == 0 {
		c.Unres("method RemoveUpTo of the connectionStateMap queue type")
		return
	}
	memo := map[*ssa.Function]int{}
	var must func(f *ssa.Function) bool
	isMust := func(in ssa.Instruction) bool {
		ci, ok := in.(*ssa.Call)
		if !ok {
			return false
		}
		g := ci.Call.StaticCallee()
		return g != nil && x.k.inScope[g] && must(g)
	}
	must = func(f *ssa.Function) bool {
		if targets[f] {
			return true
		}
		if r := memo[f]; r != 0 {
			return r == 1
		}
		memo[f] = 2
		if len(x.returns(f)) > 0 && len(exitsReachableAvoiding(f, nil, isMust)) == 0 {
			memo[f] = 1
			return true
		}
		return false
	}
	c.Saw(c12name(onEvent))
	exits := exitsReachableAvoiding(onEvent, nil, isMust)
	where := ""
	if len(exits) > 0 {
		where = p.InstrPos(exits[0])
	}
	c.Req(len(exits) == 0, "C12.R4:OnCongestionEventEx→RemoveUpTo", r4, p.Pos(onEvent.Pos()), "a path through OnCongestionEventEx reaches the return at "+where+" without pruning the sampler's per-packet state (RemoveObsoletePackets → RemoveUpTo): bookkeeping grows with every packet sent")
	// evidence: the chain
	n := 0
	for f, r := range memo {
		if r == 1 {
			n++
			c.Saw(c12name(f))
		}
	}
	c.Floor("C12.R4:chain", n+len(targets), 2)
}

// ---- R5 --------------------------------------------------------------------

// seedLeQuic: whenever the QUIC connection's own initial packet size is known
// (> 0), `size` at instruction `at` is <= that size.  The QUIC size is a call of
// (*quic.Conn).InitialPacketSize dominating `at`; when the seed is computed by
// an in-scope helper, the obligation is decided on the helper's returns.
func (x *c12ctx) seedLeQuic(fn *ssa.Function, at ssa.Instruction, size ssa.Value, depth int) (bool, string) {
	pr := x.k.prover(fn)
	var Q *ssa.Call
	allInstrs(fn, func(in ssa.Instruction) {
		if q, ok := in.(*ssa.Call); ok && calleeIs(q, pQUIC, "(*Conn).InitialPacketSize") && pr.fm.dom(q, at) {
			if rq, _ := pr.lp.canon(q).(*ssa.Call); rq != nil {
				Q = rq
			}
		}
	})
	if Q == nil {
		if call, ok := resolve(size).(*ssa.Call); ok && depth > 0 {
			if g := call.Call.StaticCallee(); g != nil && x.k.inScope[g] {
				n := 0
				for _, r := range x.returns(g) {
					vals := retResults(r)
					if len(vals) != 1 {
						return false, "helper " + c12name(g) + " has an unexpected result shape"
					}
					n++
					if ok, why := x.seedLeQuic(g, r, vals[0], depth-1); !ok {
						return false, why
					}
				}
				if n > 0 {
					x.c.Saw(c12name(g))
					return true, ""
				}
			}
		}
		return false, "the seed datagram size " + c12expr(size, 0) + " is not derived from the connection's InitialPacketSize()"
	}
	sl := pr.lp.lin(size, pr.lp.newCtx(at))
	cx := &linCtx{subst: map[ssa.Value]ssa.Value{}}
	ql := linAtom(Q)
	cx.extra = append(cx.extra, linFact{linConst(1).sub(ql), "hypothesis: QUIC's initial packet size is known"})
	allInstrs(fn, func(in ssa.Instruction) {
		cc, ok := in.(*ssa.Call)
		if !ok || !isIntType(cc.Type()) {
			return
		}
		f := cc.Call.StaticCallee()
		if f == nil || !x.k.inScope[f] || !pr.fm.dom(cc, at) {
			return
		}
		for i, a := range cc.Call.Args {
			if i < len(f.Params) && isIntType(a.Type()) && x.k.retUBcond(f, i) {
				al := pr.lp.lin(a, pr.lp.newCtx(cc))
				if pr.proveAny(at, []lin{linConst(1).sub(al)}, cx, 0) {
					cx.extra = append(cx.extra, linFact{linAtom(cc).sub(al), "result of " + f.Name() + " <= its argument " + fmt.Sprint(i) + " when that is > 0"})
				}
			}
		}
	})
	if pr.proveAny(at, []lin{sl.sub(ql)}, cx, 0) {
		return true, ""
	}
	return false, "the seed datagram size " + c12expr(size, 0) + " is not proved <= conn.InitialPacketSize() when that is known"
}

func (x *c12ctx) ruleR5() {
	c, p := x.c, x.p
	const r5 = "C12.R5 wherever a BBR sender is constructed for a QUIC connection, its initial datagram size is proved >= 1 and, whenever the connection's own initial packet size is known (> 0), <= that size: the first SetMaxDatagramSize from QUIC can only be an increase (precondition of the explicit panic there)"
	n := 0
	for fn := range x.ctors {
		if fn.Object() == nil || !fn.Object().Exported() {
			continue
		}
		for _, cs := range x.k.callers[fn] {
			caller := cs.Parent()
			if c12inPkgs(caller, pBBR) {
				continue
			}
			call, ok := cs.(*ssa.Call)
			if !ok {
				continue
			}
			var size ssa.Value
			for i, prm := range fn.Params {
				if nt, ok := prm.Type().(*types.Named); ok && nt.Obj().Name() == "ByteCount" {
					size = call.Call.Args[i]
					break
				}
			}
			if size == nil {
				c.Unres("datagram-size parameter of " + c12name(fn))
				continue
			}
			n++
			c.Saw(c12name(caller))
			pr := x.k.prover(caller)
			sl := pr.lp.lin(size, pr.lp.newCtx(call))
			key := "C12.R5:" + c12name(caller) + "→" + c12name(fn)
			c.Req(pr.prove(call, linConst(1).sub(sl), nil), key+":seed>=1", r5, p.InstrPos(call), "the seed datagram size "+c12expr(size, 0)+" is not proved >= 1 (a zero seed makes the four-datagram floor zero and the window rescale divide by zero)")
			ok2, why := x.seedLeQuic(caller, call, size, 2)
			c.Req(ok2, key+":seed<=quic", r5, p.InstrPos(call), why+": it can exceed the size QUIC starts at, and QUIC's first MTU update then looks like a decrease (explicit panic in SetMaxDatagramSize)")
		}
	}
	c.Floor("C12.R5:constructions", n, 1)
}

// ---- R8 / R9  one datagram size, announced by QUIC only ----------------------

// c12fieldStore: in is a store to field f (any root).
func c12fieldStore(in ssa.Instruction, f *types.Var) (*ssa.Store, bool) {
	st, ok := in.(*ssa.Store)
	if !ok {
		return nil, false
	}
	fa, ok := st.Addr.(*ssa.FieldAddr)
	if !ok {
		return nil, false
	}
	if g := structField(fa.X.Type(), fa.Field); g != nil && g.Origin() == f.Origin() {
		return st, true
	}
	return nil, false
}

func c12structOf(t types.Type) (*types.Named, *types.Struct) {
	if pt, ok := t.Underlying().(*types.Pointer); ok {
		t = pt.Elem()
	}
	nt, _ := t.(*types.Named)
	if nt == nil {
		return nil, nil
	}
	st, _ := nt.Underlying().(*types.Struct)
	return nt, st
}

// c12sizeMirrors: the fields of the sender's components (types of the sender's
// own fields, declared in the congestion packages) that hold a copy of the
// datagram size: a field a component method with the signature of the
// interface's SetMaxDatagramSize stores its parameter into, or a field with the
// name and type of the sender's own size field.
func (x *c12ctx) c12sizeMirrors(smds *ssa.Function) []*types.Var {
	_, sst := c12structOf(x.sender)
	if sst == nil {
		return nil
	}
	senderNamed, _ := c12structOf(x.sender)
	comps := map[*types.Named]bool{}
	for i := 0; i < sst.NumFields(); i++ {
		nt, st := c12structOf(sst.Field(i).Type())
		if nt == nil || st == nil || nt.Obj().Pkg() == nil || nt.Origin() == senderNamed.Origin() {
			continue
		}
		switch nt.Obj().Pkg().Path() {
		case pBBR, pCommon, pCongestion:
			comps[nt.Origin()] = true
		}
	}
	seen := map[*types.Var]bool{}
	var out []*types.Var
	add := func(f *types.Var) {
		if f != nil && !seen[f.Origin()] {
			seen[f.Origin()] = true
			out = append(out, f.Origin())
		}
	}
	want := c12sigKey(smds.Signature)
	for _, fn := range x.k.scope {
		rn := c12recvNamed(fn)
		if rn == nil || !comps[rn.Origin()] || c12sigKey(fn.Signature) != want || len(fn.Params) < 2 {
			continue
		}
		allInstrs(fn, func(in ssa.Instruction) {
			st, ok := in.(*ssa.Store)
			if !ok {
				return
			}
			fa, ok := st.Addr.(*ssa.FieldAddr)
			if !ok || resolve(fa.X) != ssa.Value(fn.Params[0]) || resolve(st.Val) != ssa.Value(fn.Params[1]) {
				return
			}
			add(structField(fa.X.Type(), fa.Field))
		})
	}
	for nt := range comps {
		st := nt.Underlying().(*types.Struct)
		for i := 0; i < st.NumFields(); i++ {
			if f := st.Field(i); f.Name() == x.fMDS.Name() && types.Identical(f.Type(), x.fMDS.Type()) {
				add(f)
			}
		}
	}
	sort.Slice(out, func(i, j int) bool { return out[i].Name() < out[j].Name() })
	return out
}

// c12sizeAgree carries the must-pass analysis of R8 for one mirror field.
type c12sizeAgree struct {
	x      *c12ctx
	mirror *types.Var
	memo   map[*ssa.Function]int
}

// sets: the instruction certainly updates the mirror (a store to it, or a
// static call of an in-scope function all of whose normal returns lie behind
// such an instruction).
func (a *c12sizeAgree) sets(in ssa.Instruction) bool {
	if _, ok := c12fieldStore(in, a.mirror); ok {
		return true
	}
	var g *ssa.Function
	switch ci := in.(type) {
	case *ssa.Call:
		g = ci.Call.StaticCallee()
	case *ssa.Defer: // runs at every exit of the function once registered
		g = ci.Call.StaticCallee()
	}
	return g != nil && a.x.k.inScope[g] && a.must(g)
}

func (a *c12sizeAgree) must(f *ssa.Function) bool {
	if r := a.memo[f]; r != 0 {
		return r == 1
	}
	a.memo[f] = 2
	if len(a.x.returns(f)) > 0 && len(exitsReachableAvoiding(f, nil, a.sets)) == 0 {
		a.memo[f] = 1
		return true
	}
	return false
}

// c12sizeEvent: the instruction changes the sender's own datagram size (a store
// to the field or a static call of an in-scope function that may store it).
func (x *c12ctx) c12sizeEvent(in ssa.Instruction) bool {
	if _, ok := c12fieldStore(in, x.fMDS); ok {
		return true
	}
	if ci, ok := in.(ssa.CallInstruction); ok {
		if g := ci.Common().StaticCallee(); g != nil && x.k.inScope[g] && !x.ctors[g] {
			return x.k.mod[g][x.fMDS.Origin()]
		}
	}
	return false
}

// c12flowVal: the value an instruction hands to field f: the stored value, or
// for a call the argument bound to the parameter every store of f below the
// callee receives (nil: not traceable).
func (x *c12ctx) c12flowVal(in ssa.Instruction, f *types.Var, depth int) ssa.Value {
	if st, ok := c12fieldStore(in, f); ok {
		return st.Val
	}
	ci, ok := in.(ssa.CallInstruction)
	if !ok || depth <= 0 {
		return nil
	}
	g := ci.Common().StaticCallee()
	if g == nil || !x.k.inScope[g] {
		return nil
	}
	idx := -1
	bad := false
	allInstrs(g, func(in2 ssa.Instruction) {
		_, isStore := c12fieldStore(in2, f)
		if !isStore {
			c2, isCall := in2.(ssa.CallInstruction)
			if !isCall {
				return
			}
			h := c2.Common().StaticCallee()
			if h == nil || !x.k.inScope[h] || !x.k.mod[h][f.Origin()] {
				return
			}
		}
		v := x.c12flowVal(in2, f, depth-1)
		if v == nil {
			bad = true
			return
		}
		prm, ok := resolve(v).(*ssa.Parameter)
		if !ok {
			bad = true
			return
		}
		for i, q := range g.Params {
			if q == prm {
				if idx >= 0 && idx != i {
					bad = true
				}
				idx = i
			}
		}
	})
	args := ci.Common().Args
	if bad || idx < 0 || idx >= len(args) {
		return nil
	}
	return args[idx]
}

func (x *c12ctx) ruleR8(smds *ssa.Function) {
	c, p := x.c, x.p
	const r8 = "C12.R8 every path through a sender method that changes the sender's datagram size (maxDatagramSize, directly or through a helper) and returns normally also hands that size to every component holding its own copy of it (the pacer's maxDatagramSize): HasPacingBudget compares the pacer's budget with the sender's size while Pacer.TimeUntilSend waits for the pacer's, so a disagreement leaves the send loop with no budget and no time to wait for"
	mirrors := x.c12sizeMirrors(smds)
	c.Floor("C12.R8:size-copies", len(mirrors), 1)
	nDis := 0
	for _, g := range mirrors {
		ag := &c12sizeAgree{x: x, mirror: g, memo: map[*ssa.Function]int{}}
		for _, fn := range x.bbrFns {
			if x.ctors[fn] {
				continue
			}
			var events, setters []ssa.Instruction
			allInstrs(fn, func(in ssa.Instruction) {
				if x.c12sizeEvent(in) {
					events = append(events, in)
				}
				if ag.sets(in) {
					setters = append(setters, in)
				}
			})
			if len(events) == 0 {
				continue
			}
			c.Saw(c12name(fn))
			before := map[ssa.Instruction]bool{}
			for _, in := range reachFrom(fn, nil, ag.sets, nil) {
				before[in] = true
			}
			why, pos := "", p.Pos(fn.Pos())
			for _, E := range events {
				if ag.sets(E) {
					continue // the event itself (a helper) updates the copy on all its paths
				}
				if !before[E] {
					continue // the copy was updated on every path leading here
				}
				if ex := exitsReachableAvoiding(fn, E, ag.sets); len(ex) > 0 {
					why = "after " + c12expr0(E) + " changes the sender's " + x.fMDS.Name() + " a path reaches the return at " + p.InstrPos(ex[0]) + " without updating " + g.Name() + " of the " + c12ownerName(g) + ": sender and " + c12ownerName(g) + " disagree on the datagram size from then on"
					pos = p.InstrPos(E)
					break
				}
			}
			if why != "" && x.k.liftable(fn) && len(x.k.callers[fn]) > 0 {
				allIn := true
				for _, cs := range x.k.callers[fn] {
					if !x.k.inScope[cs.Parent()] {
						allIn = false
					}
				}
				if allIn {
					continue // an internal helper: its call is an event of each caller, decided there
				}
			}
			if why == "" {
				// same size: what the copy receives is the value the sender stores (or the sender's field itself)
				for _, E := range events {
					vE := x.c12flowVal(E, x.fMDS, 3)
					if vE == nil {
						continue
					}
					for _, M := range setters {
						vM := x.c12flowVal(M, g, 3)
						if vM == nil || resolve(vM) == resolve(vE) {
							continue
						}
						ds := deps(vM, depOpts{throughCalls: true})
						rel := ds[resolve(vE)] || ds[vE]
						for d := range ds {
							if isLoadOfField(d, x.fMDS) {
								rel = true
							}
							// a value read, after the change, from a field the size change itself re-denominates
							if u, ok := d.(*ssa.UnOp); ok && u.Op == token.MUL && dominates(E, u) {
								if fa, ok := u.X.(*ssa.FieldAddr); ok {
									if f := structField(fa.X.Type(), fa.Field); f != nil {
										if ec, ok := E.(ssa.CallInstruction); ok && x.k.callMods(ec, f) {
											rel = true
										}
									}
								}
							}
						}
						if !rel {
							why = "the " + c12ownerName(g) + " receives " + c12expr(vM, 0) + " while the sender adopts " + c12expr(vE, 0) + ": the two datagram sizes are unrelated values"
							pos = p.InstrPos(M)
						}
					}
				}
			}
			nDis++
			c.Req(why == "", "C12.R8:"+c12name(fn)+"→"+c12ownerName(g)+"."+g.Name(), r8, pos, why)
		}
	}
	c.Floor("C12.R8:size-changing-methods", nDis, 1)
}

func c12ownerName(f *types.Var) string {
	if f.Pkg() != nil {
		sc := f.Pkg().Scope()
		for _, nm := range sc.Names() {
			if tn, ok := sc.Lookup(nm).(*types.TypeName); ok {
				if st, ok := tn.Type().Underlying().(*types.Struct); ok {
					for i := 0; i < st.NumFields(); i++ {
						if st.Field(i).Origin() == f.Origin() {
							return tn.Name()
						}
					}
				}
			}
		}
	}
	return "component"
}

func c12expr0(in ssa.Instruction) string {
	if st, ok := in.(*ssa.Store); ok {
		return "the store of " + c12expr(st.Val, 0)
	}
	if ci, ok := in.(ssa.CallInstruction); ok {
		if g := ci.Common().StaticCallee(); g != nil {
			return "the call of " + c12name(g)
		}
	}
	return "an instruction"
}

func (x *c12ctx) ruleR9(smds *ssa.Function) {
	c, p := x.c, x.p
	const r9 = "C12.R9 the sender's datagram size is written only by the constructor and below SetMaxDatagramSize, and SetMaxDatagramSize is never called (directly, as a method value, or through an interface) from the repository's own code outside a constructor: the size follows exactly the sizes QUIC announces, so QUIC's next announcement (never smaller than its previous one, contract R7) cannot trip the `decreased max datagram size` panic"
	c.Saw(c12name(smds))
	// (a) writers
	memo := map[*ssa.Function]int{}
	var okWriter func(fn *ssa.Function) bool
	okWriter = func(fn *ssa.Function) bool {
		if fn == smds || x.ctors[fn] {
			return true
		}
		if r := memo[fn]; r != 0 {
			return r == 1
		}
		memo[fn] = 1 // recursion among helpers does not add an entry point
		ok := x.k.inScope[fn] && x.k.liftable(fn) && len(x.k.callers[fn]) > 0
		if ok {
			for _, cs := range x.k.callers[fn] {
				if !okWriter(cs.Parent()) {
					ok = false
				}
			}
		}
		if !ok {
			memo[fn] = 2
		}
		return ok
	}
	n := 0
	for _, fn := range x.k.scope {
		for _, S := range x.storesTo(fn, x.fMDS) {
			n++
			key := x.keys.get("C12.R9:" + c12name(fn) + ":writes-" + x.fMDS.Name())
			c.Req(okWriter(fn), key, r9, p.InstrPos(S), c12name(fn)+" stores "+c12expr(S.Val, 0)+" into "+x.fMDS.Name()+" but is reachable otherwise than from the constructor or SetMaxDatagramSize: the sender's datagram size can leave the sequence of sizes QUIC announced")
		}
	}
	c.Floor("C12.R9:size-stores", n, 2)
	// (b) callers of the interface method
	clean := true
	for _, cs := range x.k.callers[smds] {
		caller := cs.Parent()
		if caller.Synthetic != "" || x.ctors[caller] {
			continue
		}
		clean = false
		c.Bad(x.keys.get("C12.R9:"+c12name(caller)+"→SetMaxDatagramSize"), r9, p.InstrPos(cs), c12name(caller)+" calls the sender's SetMaxDatagramSize itself with "+c12expr(cs.Common().Args[len(cs.Common().Args)-1], 0)+": the sender adopts a size QUIC did not announce, and a later smaller (but for QUIC increasing) announcement panics")
	}
	if x.k.valUsed[smds] {
		clean = false
		c.Bad("C12.R9:SetMaxDatagramSize:method-value", r9, p.Pos(smds.Pos()), "the sender's SetMaxDatagramSize is used as a function value inside the repository: its callers cannot be enumerated")
	}
	for _, fn := range p.RepoFns {
		allInstrs(fn, func(in ssa.Instruction) {
			ci, ok := in.(ssa.CallInstruction)
			if !ok || !ci.Common().IsInvoke() || ci.Common().Method.Name() != smds.Name() {
				return
			}
			it, ok := ci.Common().Value.Type().Underlying().(*types.Interface)
			if !ok || !types.Implements(x.sender, it) {
				return
			}
			clean = false
			c.Bad(x.keys.get("C12.R9:"+c12name(fn)+"→SetMaxDatagramSize(interface)"), r9, p.InstrPos(in), c12name(fn)+" calls SetMaxDatagramSize through an interface the BBR sender implements: repository code announces a datagram size to the sender")
		})
	}
	if clean {
		c.OK("C12.R9:SetMaxDatagramSize:only-QUIC-calls", r9, p.Pos(smds.Pos()))
	}
}

// ---- field invariants (R6a index field, maxDatagramSize >= 1) ---------------

func (x *c12ctx) checkInvariant(rule, text string, f *types.Var) int {
	c, p := x.c, x.p
	iv := x.k.inv[f.Origin()]
	n := 0
	for _, fn := range x.k.scope {
		for _, S := range x.storesTo(fn, f) {
			n++
			c.Saw(c12name(fn))
			pr := x.k.prover(fn)
			val := pr.lp.lin(S.Val, pr.lp.newCtx(S))
			var trail []string
			ok := true
			if iv.hasLo && !x.k.proveLift(fn, S, []lin{linConst(iv.lo).sub(val)}, nil, 3, &trail) {
				ok = false
			}
			if iv.hasHi && !x.k.proveLift(fn, S, []lin{val.sub(linConst(iv.hi))}, nil, 3, &trail) {
				ok = false
			}
			key := x.keys.get(rule + ":" + c12name(fn) + ":" + f.Name() + "=" + c12expr(S.Val, 0))
			c.Req(ok, key, text, p.InstrPos(S), "the value stored in "+f.Name()+" is not proved to satisfy "+iv.describe+c12trail(trail))
		}
	}
	return n
}

// ---- R6 --------------------------------------------------------------------

type c12idxSite struct {
	in  ssa.Instruction
	idx ssa.Value
	n   int64
	g   *ssa.Global
}

// globalArraySites: index expressions with a non-constant index on a package-level array.
func (x *c12ctx) globalArraySites() []c12idxSite {
	var out []c12idxSite
	for _, fn := range x.k.scope {
		allInstrs(fn, func(in ssa.Instruction) {
			ia, ok := in.(*ssa.IndexAddr)
			if !ok {
				return
			}
			g, ok := ia.X.(*ssa.Global)
			if !ok {
				return
			}
			pt, ok := g.Type().(*types.Pointer)
			if !ok {
				return
			}
			if pp, ok := pt.Elem().Underlying().(*types.Pointer); ok { // global holding *[N]T
				pt = pp
			}
			arr, ok := pt.Elem().Underlying().(*types.Array)
			if !ok {
				return
			}
			if _, isC := constInt(ia.Index); isC {
				return
			}
			out = append(out, c12idxSite{in, ia.Index, arr.Len(), g})
		})
	}
	return out
}

func (x *c12ctx) ruleR6a(sites []c12idxSite, idxFields []*types.Var) {
	c, p := x.c, x.p
	const r6a = "C12.R6a every non-constant index into a package-level array of the BBR package (the pacing-gain cycle) is proved inside the array; when the index is a struct field, every store to that field is proved inside [0, len-1]"
	for _, s := range sites {
		fn := s.in.Parent()
		c.Saw(c12name(fn))
		pr := x.k.prover(fn)
		il := pr.lp.lin(s.idx, pr.lp.newCtx(s.in))
		ok := pr.prove(s.in, linConst(0).sub(il), nil) && pr.prove(s.in, il.sub(linConst(s.n-1)), nil)
		key := x.keys.get("C12.R6a:" + c12name(fn) + ":" + s.g.Name() + "[" + c12expr(s.idx, 0) + "]")
		c.Req(ok, key, r6a, p.InstrPos(s.in), fmt.Sprintf("index %s is not proved inside [0,%d]: index-out-of-range panic", c12expr(s.idx, 0), s.n-1))
	}
	c.Floor("C12.R6a:sites", len(sites), 1)
	n := 0
	for _, f := range idxFields {
		n += x.checkInvariant("C12.R6a", r6a, f)
	}
	c.Floor("C12.R6a:index-field-stores", n, 2)
}

// ring anchors, resolved by role: the precondition methods of the ring type are
// its methods that contain an explicit panic; the emptiness / length tests are
// the ring methods whose result guards those panics.
type c12ring struct {
	named    *types.Named
	precond  map[*ssa.Function]bool // by origin
	emptyFn  map[*ssa.Function]bool
	lenFn    map[*ssa.Function]bool
	isRingFn map[*ssa.Function]bool
}

func c12origin(f *ssa.Function) *ssa.Function {
	if o := f.Origin(); o != nil {
		return o
	}
	return f
}

func c12recvNamed(f *ssa.Function) *types.Named {
	rv := f.Signature.Recv()
	if rv == nil {
		return nil
	}
	t := rv.Type()
	if pt, ok := t.(*types.Pointer); ok {
		t = pt.Elem()
	}
	nt, _ := t.(*types.Named)
	if nt != nil {
		return nt.Origin()
	}
	return nil
}

func (x *c12ctx) ringAnchors() *c12ring {
	rn := x.p.Named(pBBR, "RingBuffer")
	if rn == nil {
		return nil
	}
	r := &c12ring{named: rn, precond: map[*ssa.Function]bool{}, emptyFn: map[*ssa.Function]bool{}, lenFn: map[*ssa.Function]bool{}, isRingFn: map[*ssa.Function]bool{}}
	for _, fn := range x.k.scope {
		if c12recvNamed(fn) != rn.Origin() {
			continue
		}
		r.isRingFn[fn] = true
		hasPanic := false
		allInstrs(fn, func(in ssa.Instruction) {
			if pn, ok := in.(*ssa.Panic); ok && pn.Pos().IsValid() {
				hasPanic = true
				// conditions leading to the panic block
				for _, pb := range fn.Blocks {
					for i, s := range pb.Succs {
						if s != pn.Block() && !s.Dominates(pn.Block()) {
							continue
						}
						cond, _, ok := edgeFact(pb, i)
						if !ok {
							continue
						}
						var walk func(v ssa.Value, d int)
						walk = func(v ssa.Value, d int) {
							if d > 4 {
								return
							}
							switch y := v.(type) {
							case *ssa.Call:
								if g := y.Call.StaticCallee(); g != nil && c12recvNamed(g) == rn.Origin() && len(y.Call.Args) == 1 {
									if b, ok := y.Type().Underlying().(*types.Basic); ok && b.Kind() == types.Bool {
										r.emptyFn[c12origin(g)] = true
									} else if isIntType(y.Type()) {
										r.lenFn[c12origin(g)] = true
									}
								}
							case *ssa.BinOp:
								walk(y.X, d+1)
								walk(y.Y, d+1)
							case *ssa.UnOp:
								walk(y.X, d+1)
							case *ssa.Phi:
								for _, e := range y.Edges {
									walk(e, d+1)
								}
							}
						}
						walk(cond, 0)
					}
				}
			}
		})
		if hasPanic {
			r.precond[c12origin(fn)] = true
		}
	}
	return r
}

func (x *c12ctx) ruleR6b() {
	c, p := x.c, x.p
	const r6b = "C12.R6b every call, from outside the ring type, of a ring-buffer method that panics on an empty buffer or a bad index (PopFront, Front, Back, Offset) is guarded on every path by the false edge of the ring's emptiness test on the same receiver, or by a dominating length test proving len >= 1 (and 0 <= index < len for an indexed access)"
	ring := x.ringAnchors()
	if ring == nil || len(ring.precond) == 0 || len(ring.emptyFn) == 0 || len(ring.lenFn) == 0 {
		c.Unres("ring buffer type bbr.RingBuffer with panicking methods and their emptiness/length tests")
		return
	}
	n := 0
	for _, fn := range x.k.scope {
		if ring.isRingFn[fn] {
			continue
		}
		pr := (*c12pr)(nil)
		allInstrs(fn, func(in ssa.Instruction) {
			cs, ok := in.(*ssa.Call)
			if !ok {
				return
			}
			g := cs.Call.StaticCallee()
			if g == nil || !ring.precond[c12origin(g)] {
				return
			}
			n++
			c.Saw(c12name(fn))
			if pr == nil {
				pr = x.k.prover(fn)
			}
			recv, okLoc := c12locOfAddr(cs.Call.Args[0])
			sameRecv := func(v ssa.Value) bool {
				if !okLoc {
					return resolve(v) == resolve(cs.Call.Args[0])
				}
				l, ok := c12locOfAddr(v)
				return ok && c12sameLoc(l, recv)
			}
			indexed := len(cs.Call.Args) == 2 && isIntType(cs.Call.Args[1].Type())
			good := false
			if !indexed {
				good = guardedBy(cs, func(cond ssa.Value, pol bool) bool {
					e, ok := cond.(*ssa.Call)
					if !ok || pol {
						return false
					}
					eg := e.Call.StaticCallee()
					return eg != nil && ring.emptyFn[c12origin(eg)] && sameRecv(e.Call.Args[0])
				})
			}
			if !good {
				allInstrs(fn, func(in2 ssa.Instruction) {
					lc, ok := in2.(*ssa.Call)
					if !ok || good {
						return
					}
					lg := lc.Call.StaticCallee()
					if lg == nil || !ring.lenFn[c12origin(lg)] || !sameRecv(lc.Call.Args[0]) || !pr.fm.dom(lc, cs) {
						return
					}
					ll := linAtom(lc)
					if !indexed {
						good = pr.prove(cs, linConst(1).sub(ll), nil)
						return
					}
					il := pr.lp.lin(cs.Call.Args[1], pr.lp.newCtx(cs))
					good = pr.prove(cs, linConst(0).sub(il), nil) && pr.prove(cs, il.add(linConst(1)).sub(ll), nil)
				})
			}
			arg := ""
			if indexed {
				arg = c12expr(cs.Call.Args[1], 0)
			}
			key := x.keys.get("C12.R6b:" + c12name(fn) + ":" + c12expr(cs.Call.Args[0], 0) + "." + c12origin(g).Name() + "(" + arg + ")")
			c.Req(good, key, r6b, p.InstrPos(cs), "call of "+c12origin(g).Name()+" is not guarded by a non-empty / in-range test on the same ring: it panics on an empty ring or a bad index")
		})
	}
	c.Floor("C12.R6b:sites", n, 9)
}

func (x *c12ctx) ruleR6c() {
	c, p := x.c, x.p
	const r6c = "C12.R6c WindowedFilter.estimates is indexed only by non-negative constants, every store to the field creates a slice whose constant length exceeds the largest such index, and every WindowedFilter is allocated by a function that stores the field"
	fEst := p.Field(pBBR, "WindowedFilter", "estimates")
	if fEst == nil {
		c.Unres("field bbr.WindowedFilter.estimates")
		return
	}
	// index sites: one obligation per function, all indexes must be constants
	maxIdx := int64(-1)
	n := 0
	for _, fn := range x.k.scope {
		var bad ssa.Instruction
		m := 0
		allInstrs(fn, func(in ssa.Instruction) {
			ia, ok := in.(*ssa.IndexAddr)
			if !ok {
				return
			}
			u, ok := ia.X.(*ssa.UnOp)
			if !ok || u.Op != token.MUL {
				return
			}
			fa, ok := u.X.(*ssa.FieldAddr)
			if !ok {
				return
			}
			if f := structField(fa.X.Type(), fa.Field); f == nil || f.Origin() != fEst.Origin() {
				return
			}
			m++
			if k, isC := constInt(ia.Index); isC && k >= 0 {
				if k > maxIdx {
					maxIdx = k
				}
			} else if bad == nil {
				bad = in
			}
		})
		if m == 0 {
			continue
		}
		n += m
		c.Saw(c12name(fn))
		pos := p.Pos(fn.Pos())
		if bad != nil {
			pos = p.InstrPos(bad)
		}
		c.Req(bad == nil, "C12.R6c:"+c12name(fn)+":constant-indexes", r6c, pos, "estimates is indexed by a value that is not a non-negative constant: not covered by the creation length")
	}
	c.Floor("C12.R6c:sites", n, 20)
	nStores := 0
	wf := fEst.Origin().Pkg().Scope().Lookup("WindowedFilter")
	for _, fn := range x.k.scope {
		sts := x.storesTo(fn, fEst)
		for _, S := range sts {
			nStores++
			c.Saw(c12name(fn))
			pr := x.k.prover(fn)
			l := pr.lp.lenOf(S.Val, pr.lp.newCtx(S))
			key := x.keys.get("C12.R6c:" + c12name(fn) + ":estimates-length")
			c.Req(l.isConst() && l.k > maxIdx, key, r6c, p.InstrPos(S), fmt.Sprintf("estimates is stored with a slice whose length is not a constant > %d, the largest index used on it: index-out-of-range panic in the filter", maxIdx))
		}
		allInstrs(fn, func(in ssa.Instruction) {
			al, ok := in.(*ssa.Alloc)
			if !ok {
				return
			}
			if nt, ok := al.Type().(*types.Pointer).Elem().(*types.Named); ok && nt.Origin().Obj() == wf && len(sts) == 0 {
				c.Bad(x.keys.get("C12.R6c:"+c12name(fn)+":alloc"), r6c, p.InstrPos(in), "a WindowedFilter is allocated without creating its estimates slice")
			}
		})
	}
	c.Floor("C12.R6c:stores", nStores, 2)
}

// justification table for index sites that rest on a fact the prover cannot see
var c12trustedIdx = map[string]string{
	"formatSpeed|[]string": "debug-only formatter: the loop increments the index only under `unitIndex < len(units)-1` (a loop-carried bound the prover does not do induction on; trusted, not proved)",
	"(*bandwidthSampler).OnCongestionEvent|[]LostPacketInfo": "reached only when lastLostPacketSendState.isValid, and that flag is set only inside the loop over lostPackets: the slice is non-empty (flag-carried fact, not a linear guard; trusted, not proved)",
}

func (x *c12ctx) ruleR6e(onEvent *ssa.Function) {
	c, p := x.c, x.p
	const r6e = "C12.R6e every other explicit index expression of the BBR sender and sampler (last-element accesses on the acked/lost packet slices, fixed arrays, debug tables) is proved in bounds from the guards dominating it; inside OnCongestionEventEx the proof may use the R7 contract that the acked and lost slices are not both empty; a site that rests on a fact no rule proves is a named trusted entry"
	ring := x.ringAnchors()
	wf := p.Named(pBBR, "WindowedFilter")
	if ring == nil || wf == nil {
		c.Unres("types bbr.RingBuffer / bbr.WindowedFilter")
		return
	}
	n := 0
	for _, fn := range x.bbrFns {
		if ring.isRingFn[fn] || c12recvNamed(fn) == wf.Origin() {
			continue // the containers' own invariants: R6b / R6c cover their use
		}
		pr := x.k.prover(fn)
		if fn == onEvent {
			// R7 (assumed): quic-go reports an event only with something acked or lost
			sum := linConst(1)
			cnt := 0
			for _, prm := range fn.Params {
				if _, ok := prm.Type().Underlying().(*types.Slice); ok {
					sum = sum.sub(pr.lp.lenOf(prm, pr.lp.newCtx(fn.Blocks[0].Instrs[0])))
					cnt++
				}
			}
			if cnt == 2 {
				pr.lp.pre = append(pr.lp.pre, linFact{sum, "R7 contract: acked and lost are not both empty"})
			}
		}
		allInstrs(fn, func(in ssa.Instruction) {
			var base, idx ssa.Value
			switch v := in.(type) {
			case *ssa.IndexAddr:
				base, idx = v.X, v.Index
			case *ssa.Index:
				base, idx = v.X, v.Index
			default:
				return
			}
			if !in.Pos().IsValid() {
				return // range loops, variadic packs: in bounds by construction
			}
			if _, isG := base.(*ssa.Global); isG {
				if _, isC := constInt(idx); !isC {
					return // R6a
				}
			}
			n++
			c.Saw(c12name(fn))
			ok, missing := pr.lp.siteBounds(in)
			var trail []string
			if !ok {
				// the bound may be a contract on the parameters: lift it to the call sites
				cxs := pr.lp.newCtx(in)
				il := pr.lp.lin(idx, cxs)
				ok = x.k.proveLift(fn, in, []lin{linConst(0).sub(il)}, nil, 2, &trail) &&
					x.k.proveLift(fn, in, []lin{il.add(linConst(1)).sub(pr.lp.lenOf(base, cxs))}, nil, 2, &trail)
			}
			elem := ""
			switch t := base.Type().Underlying().(type) {
			case *types.Slice:
				elem = "[]" + types.TypeString(t.Elem(), func(*types.Package) string { return "" })
			case *types.Pointer:
				elem = types.TypeString(t.Elem(), func(*types.Package) string { return "" })
			}
			key := x.keys.get("C12.R6e:" + c12name(fn) + ":" + c12expr(base, 0) + "[" + c12expr(idx, 0) + "]")
			if ok {
				c.OK(key, r6e, p.InstrPos(in))
				return
			}
			if why, t := c12trustedIdx[c12name(fn)+"|"+elem]; t {
				c.OK(key, r6e+" [trusted: "+why+"]", p.InstrPos(in))
				return
			}
			c.Bad(key, r6e, p.InstrPos(in), "`"+missing+"` is not established by the guards dominating this index expression: index-out-of-range panic"+c12trail(trail))
		})
	}
	c.Floor("C12.R6e:sites", n, 4)
}

// justification table for divisors that rest on an invariant no rule proves
var c12trustedDiv = map[string]string{
	"(*bbrSender).calculatePacingRate|recv.cwndToCalculateMinPacingRate": "overshoot branch: pacingRate > targetRate >= 0 means a pacing rate was already derived; quic-go updates the RTT statistics before it reports the first ack, so rttStats.MinRTT() != 0 once a bandwidth sample exists (trusted quic-go invariant, not proved)",
	"(*RingBuffer[T]).Offset|%|len(recv.ring)":                           "after the !Empty() guard the ring holds an element, so it has been allocated (PushBack grows an empty ring before storing): len(ring) >= 1 (data-structure invariant of the ring, not proved)",
}

// c12widen strips value-preserving integer conversions (same or larger width: a non-zero value stays non-zero).
func c12widen(v ssa.Value) ssa.Value {
	inner := resolve(v)
	for {
		if cv, ok := inner.(*ssa.Convert); ok && c12intBits(cv.Type()) >= c12intBits(cv.X.Type()) && c12intBits(cv.X.Type()) > 0 {
			inner = resolve(cv.X)
			continue
		}
		return inner
	}
}

// c12isPacerBW: v is a call of the function value stored in Pacer.getBandwidth.
func c12isPacerBW(v ssa.Value, fGet *types.Var) bool {
	call, ok := v.(*ssa.Call)
	if !ok || fGet == nil || call.Call.StaticCallee() != nil || call.Call.IsInvoke() {
		return false
	}
	u, ok := resolve(call.Call.Value).(*ssa.UnOp)
	if !ok {
		return false
	}
	fa, ok := u.X.(*ssa.FieldAddr)
	if !ok {
		return false
	}
	f := structField(fa.X.Type(), fa.Field)
	return f != nil && f.Origin() == fGet.Origin()
}

func c12badProvider(goodProviders map[*ssa.Function]bool) string {
	bad := ""
	for f, ok := range goodProviders {
		if !ok {
			bad = c12name(f)
		}
	}
	return bad
}

func (x *c12ctx) ruleR6d(goodProviders map[*ssa.Function]bool) {
	c, p := x.c, x.p
	const r6d = "C12.R6d every integer division in congestion/bbr and congestion/common with a non-constant divisor has a divisor proved non-zero: by a dominating guard on the same value, by the linear prover, by a callee that never returns 0, for a parameter at every call site, for the pacer's bandwidth by R3 on its provider; or it is a named entry of the justification table (reported as trusted, not proved)"
	fGet := p.Field(pCommon, "Pacer", "getBandwidth")
	nBFD, n := 0, 0
	for _, fn := range x.k.scope {
		if !c12inPkgs(fn, pBBR, pCommon) {
			continue
		}
		allInstrs(fn, func(in ssa.Instruction) {
			bo, ok := in.(*ssa.BinOp)
			if !ok || (bo.Op != token.QUO && bo.Op != token.REM) || !isIntType(bo.Type()) {
				return
			}
			if k, ok := constInt(bo.Y); ok && k != 0 {
				return
			}
			n++
			c.Saw(c12name(fn))
			org := c12origin(fn)
			base := "C12.R6d:" + c12name(org) + ":" + bo.Op.String() + c12expr(bo.Y, 0)
			// divisor derived from a parameter: one obligation per call site
			inner := c12widen(bo.Y)
			if pa, ok := inner.(*ssa.Parameter); ok && x.k.liftable(fn) {
				idx := 0
				for i, q := range fn.Params {
					if q == pa {
						idx = i
					}
				}
				sites := x.k.callers[fn]
				if len(sites) == 0 {
					c.OK(x.keys.get(base+":no-call-site"), r6d, p.InstrPos(in))
				}
				for _, cs := range sites {
					caller := cs.Parent()
					arg := cs.Common().Args[idx]
					first := ""
					if len(cs.Common().Args) > 0 {
						first = c12expr(cs.Common().Args[0], 0)
					}
					if nt, ok := pa.Type().(*types.Named); ok && nt.Obj().Name() == "Duration" && nt.Obj().Pkg() != nil && nt.Obj().Pkg().Path() == "time" {
						nBFD++ // a bandwidth computed from a time delta
					}
					key := x.keys.get("C12.R6d:" + c12name(c12origin(caller)) + "→" + fn.Name() + "(" + first + ",…)")
					var trail []string
					// the argument is the pacer's bandwidth (the division was extracted into a helper): R3 on the provider
					if c12isPacerBW(c12widen(arg), fGet) {
						bad := c12badProvider(goodProviders)
						c.Req(bad == "" && len(goodProviders) > 0, key, r6d, p.InstrPos(cs), "the BBR bandwidth provider "+bad+" is not proved to return a positive value (R3)")
						continue
					}
					if x.k.nonZero(caller, cs, arg, 2, &trail) {
						c.OK(key, r6d, p.InstrPos(cs))
						continue
					}
					if why, ok := c12trustedDiv[c12name(c12origin(caller))+"|"+first]; ok {
						c.OK(key, r6d+" [trusted: "+why+"]", p.InstrPos(cs))
						continue
					}
					c.Bad(key, r6d, p.InstrPos(cs), "the divisor argument "+c12expr(arg, 0)+" of "+fn.Name()+" is not proved non-zero here: integer division by zero panics"+c12trail(trail))
				}
				return
			}
			// the pacer's bandwidth: a call of the function stored in Pacer.getBandwidth
			if c12isPacerBW(inner, fGet) {
				bad := c12badProvider(goodProviders)
				c.Req(bad == "" && len(goodProviders) > 0, x.keys.get(base), r6d, p.InstrPos(in), "the BBR bandwidth provider "+bad+" is not proved to return a positive value (R3)")
				return
			}
			var trail []string
			if x.k.nonZero(fn, in, bo.Y, 0, &trail) {
				c.OK(x.keys.get(base), r6d, p.InstrPos(in))
				return
			}
			if why, ok := c12trustedDiv[c12name(org)+"|"+bo.Op.String()+"|"+c12expr(bo.Y, 0)]; ok {
				c.OK(x.keys.get(base), r6d+" [trusted: "+why+"]", p.InstrPos(in))
				return
			}
			c.Bad(x.keys.get(base), r6d, p.InstrPos(in), "the divisor "+c12expr(bo.Y, 0)+" is not proved non-zero: integer division by zero panics"+c12trail(trail))
		})
	}
	c.Floor("C12.R6d:division-sites", n, 5)
	c.Floor("C12.R6d:BandwidthFromDelta-call-sites", nBFD, 4)
}

func init() {
	register(&propDef{
		ID:        "C12",
		Run:       checkC12,
		Technique: "static analysis: clamp/floor proofs with a linear-inequality prover over go/ssa (edge-dominating guards, min/max builtins, clamp by assignment, φ and predecessor-edge case split, call-aware unification of field loads, callee summaries, parameter goals lifted to every call site), must-pass reachability on the CFG/call graph, call-site preconditions of the ring buffer, never-zero analysis of divisors",
		Explanation: "R1 every value a BBR sender method leaves in congestionWindow at return is proved inside [minCongestionWindow, maxCongestionWindow]; R1b minCongestionWindow >= 4 x maxDatagramSize wherever either is defined and the constructor establishes min <= initial <= max (proved at its call sites); R1c GetCongestionWindow returns only values inside the bounds and reads recoveryWindow only on the in-recovery edge; " +
			"R2 every value left in recoveryWindow is proved >= minCongestionWindow, or (reset on entering recovery) is followed on every path to the end of the event by a call of a function that re-floors it on all in-recovery returns; " +
			"R3 the bandwidth function BBR hands to the pacer returns >= 65536 B/s on every return; " +
			"R4 every normal path through OnCongestionEventEx passes a call that must reach RemoveUpTo on the sampler's per-packet queue; " +
			"R5 the datagram size a BBR sender is seeded with is >= 1 and <= the QUIC connection's own initial packet size whenever that is known; " +
			"R6 panic-site preconditions in congestion/bbr and congestion/common: (a) indexes into the pacing-gain array and every store to the index field are in range, (b) ring-buffer PopFront/Front/Back/Offset call sites are guarded by a non-empty / in-range test on the same ring, (c) WindowedFilter.estimates is indexed by constants below its creation length, (d) every integer division has a divisor proved non-zero (BandwidthFromDelta at its 5 call sites, window rescale through the invariant maxDatagramSize >= 1, the pacer through R3) or is a named trusted entry, (e) every other explicit index expression of the sender and sampler (ackedPackets[len-1], lostPackets[len-1], fixed arrays) is proved in bounds, inside OnCongestionEventEx using the R7 contract, bounds on helper parameters being lifted to every call site together with the helper's path condition; " +
			"R8 every path through a sender method that changes the sender's datagram size and returns normally also hands that size to every component holding its own copy (the pacer), before or after, through helpers that must reach the copy's store: otherwise HasPacingBudget (sender's size) and Pacer.TimeUntilSend (pacer's size) disagree and the send loop has no budget and nothing to wait for; " +
			"R9 the sender's datagram size is written only by the constructor and below SetMaxDatagramSize, and no repository code outside a constructor calls the sender's SetMaxDatagramSize (statically, as a method value or through an interface): the size follows exactly QUIC's announcements, so the not-a-decrease panic there rests on contract R7 alone.",
		NotDecided: []string{
			"liveness and throughput (no deadlock, does not settle far below capacity): simulation territory",
			"bookkeeping *proportional* to packets in flight (R4 gives `pruned on every event`, not the bound); that RemoveUpTo is called with the right packet number",
			"arithmetic overflow in bandwidth x time products and in the window rescale",
			"that the ring is not mutated between a non-empty test and the guarded call (e.g. the counted PopFront loop in chooseA0Point), and the ring's internal head/tail index invariants",
			"R7 itself (inside quic-go both call sites of OnCongestionEventEx pass a non-empty acked or lost slice; SetMaxDatagramSize is only called on an MTU increase): used as a contract by R5/R6e, not re-verified here (needs dependency bodies)",
			"R8 covers size *changes* after construction: that the pacer's initial copy (a constant in NewPacer) equals the sender's seed is not checked, and `same size` is decided leniently (the pacer's argument must be the adopted value, the sender's size field, or derived from either / from a field the change re-denominates)",
			"sites entered in the justification tables (overshoot-branch MinRTT divisor, ring modulo, lostPackets[len-1] behind the isValid flag, debug formatter): reported as trusted, not proved",
		},
		Assumptions: []string{
			"R7 environment contract (not checked, needs quic-go bodies): quic-go calls OnCongestionEventEx only with a non-empty acked or lost slice (len(acked)+len(lost) >= 1 is available to R6e inside that method) and SetMaxDatagramSize only with a size >= the previous one",
			"window bounds invariant minCongestionWindow <= initialCongestionWindow <= maxCongestionWindow is preserved by the datagram-size rescale (x*new/old is monotone; not linear, not proved) – it is proved at construction and assumed in methods that do not store the bounds",
			"no re-entrancy: Clock, RTTStatsProvider and function values called by the sender do not call back into it; rttStats.MinRTT() is stable within one congestion event",
			"packet-number spans and window sizes fit the platform int; sums and small multiples of byte counts do not overflow 63 bits",
			"a field whose address is never taken is modified only by stores to that field (no unsafe aliasing)",
		},
	})
}

func checkC12(c *Check) {
	p := c.P
	if d := os.Getenv("HV_C12_DUMP"); d != "" {
		for _, fn := range p.RepoFns {
			for _, want := range strings.Split(d, ",") {
				if strings.HasSuffix(fn.String(), want) {
					fn.WriteTo(os.Stderr)
				}
			}
		}
	}
	k := newC12kit(c)
	x := &c12ctx{k: k, c: c, p: p, keys: c12keys{}, ctors: map[*ssa.Function]bool{}}
	for _, fn := range k.scope {
		if c12inPkgs(fn, pBBR) {
			x.bbrFns = append(x.bbrFns, fn)
		}
	}
	if len(x.bbrFns) < 60 {
		c.Unres("package " + pBBR + " (functions)")
		return
	}
	// the sender type, by role: the bbr type implementing quic-go's CongestionControl
	var senderNamed *types.Named
	if it := p.Named(c12pQUICCongestion, "CongestionControl"); it != nil {
		if iface, ok := it.Underlying().(*types.Interface); ok {
			for _, impl := range p.Implementations(iface) {
				t := impl
				if pt, ok := t.(*types.Pointer); ok {
					t = pt.Elem()
				}
				if nt, ok := t.(*types.Named); ok && nt.Obj().Pkg() != nil && nt.Obj().Pkg().Path() == pBBR {
					senderNamed, x.sender = nt, impl
				}
			}
		}
	}
	if senderNamed == nil {
		c.Unres("the type of package bbr implementing quic-go congestion.CongestionControl")
		return
	}
	sn := senderNamed.Obj().Name()
	fld := func(name string) *types.Var {
		f := p.Field(pBBR, sn, name)
		if f == nil {
			c.Unres("field bbr." + sn + "." + name)
		}
		return f
	}
	x.fCW, x.fMin, x.fMax, x.fInit = fld("congestionWindow"), fld("minCongestionWindow"), fld("maxCongestionWindow"), fld("initialCongestionWindow")
	x.fRW, x.fState, x.fMDS = fld("recoveryWindow"), fld("recoveryState"), fld("maxDatagramSize")
	if x.fCW == nil || x.fMin == nil || x.fMax == nil || x.fInit == nil || x.fRW == nil || x.fState == nil || x.fMDS == nil {
		return
	}
	gcw, onEvent := p.MethodOf(x.sender, "GetCongestionWindow"), p.MethodOf(x.sender, "OnCongestionEventEx")
	if gcw == nil || onEvent == nil || len(gcw.Blocks) == 0 || len(onEvent.Blocks) == 0 {
		c.Unres("methods GetCongestionWindow / OnCongestionEventEx of bbr." + sn)
		return
	}
	// constructors: functions that allocate the sender
	stateSeen := false
	for _, fn := range x.bbrFns {
		allInstrs(fn, func(in ssa.Instruction) {
			if al, ok := in.(*ssa.Alloc); ok {
				if nt, ok := al.Type().(*types.Pointer).Elem().(*types.Named); ok && nt == senderNamed {
					x.ctors[fn] = true
				}
			}
		})
	}
	// exported wrappers that return the result of a constructor
	for changed := true; changed; {
		changed = false
		for _, fn := range x.bbrFns {
			if x.ctors[fn] {
				continue
			}
			for _, r := range x.returns(fn) {
				if len(r.Results) == 1 {
					if call, ok := r.Results[0].(*ssa.Call); ok && call.Call.StaticCallee() != nil && x.ctors[call.Call.StaticCallee()] {
						x.ctors[fn] = true
						changed = true
					}
				}
			}
		}
	}
	if len(x.ctors) == 0 {
		c.Unres("constructor of bbr." + sn)
		return
	}
	for fn := range x.ctors {
		for _, S := range x.storesTo(fn, x.fState) {
			if n, ok := constInt(S.Val); ok {
				x.notInRecovery, stateSeen = n, true
			}
		}
	}
	if !stateSeen {
		c.Unres("initial (not-in-recovery) value of recoveryState in the constructor")
		return
	}
	// the fields whose address escapes cannot be reasoned about
	for _, f := range []*types.Var{x.fCW, x.fMin, x.fMax, x.fInit, x.fRW, x.fState, x.fMDS} {
		for _, fr := range fieldRefs(k.scope, f) {
			if fr.Kind == "addr" {
				c.Undecided("C12.alias:"+f.Name(), "C12 window fields are only accessed by loads and stores", p.InstrPos(fr.Instr), "the address of "+f.Name()+" is taken in "+c12name(fr.Fn))
			}
		}
	}
	// field invariants assumed for loads and proved at every store
	k.inv[x.fMDS.Origin()] = c12inv{lo: 1, hasLo: true, describe: "maxDatagramSize >= 1"}
	sites := x.globalArraySites()
	var idxFields []*types.Var
	for _, s := range sites {
		if u, ok := resolve(s.idx).(*ssa.UnOp); ok {
			if fa, ok := u.X.(*ssa.FieldAddr); ok {
				f := structField(fa.X.Type(), fa.Field)
				if _, dup := k.inv[f.Origin()]; !dup && isIntType(f.Type()) {
					k.inv[f.Origin()] = c12inv{lo: 0, hi: s.n - 1, hasLo: true, hasHi: true, describe: "0 <= " + f.Name() + " <= len(" + s.g.Name() + ")-1"}
					idxFields = append(idxFields, f)
				}
			}
		}
	}

	x.ruleR1()
	x.ruleR1c(gcw)
	x.ruleR2()
	good := x.ruleR3()
	x.ruleR4(onEvent)
	x.ruleR5()
	if smds := p.MethodOf(x.sender, "SetMaxDatagramSize"); smds == nil || len(smds.Blocks) == 0 {
		c.Unres("method SetMaxDatagramSize of bbr." + sn)
	} else {
		x.ruleR8(smds)
		x.ruleR9(smds)
	}
	x.ruleR6a(sites, idxFields)
	x.ruleR6b()
	x.ruleR6c()
	x.ruleR6e(onEvent)
	const rInv = "C12.R6d every store to maxDatagramSize is proved >= 1 (constructor: at every call site; SetMaxDatagramSize: from its not-a-decrease guard), so the window rescale never divides by zero"
	c.Floor("C12.R6d:maxDatagramSize-stores", x.checkInvariant("C12.R6d", rInv, x.fMDS), 2)
	x.ruleR6d(good)
	if os.Getenv("HV_C12_TRACE") != "" {
		for _, o := range c.Obls {
			println(o.Status, o.Key, o.Pos, o.Detail)
		}
	}
}

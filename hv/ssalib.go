package main

import (
	"go/constant"
	"go/token"
	"go/types"
	"sort"
	"strings"

	"golang.org/x/tools/go/ssa"
)

// ---------------------------------------------------------------------------
// small value helpers

// stripNot peels boolean negations; pol is flipped for each.
func stripNot(v ssa.Value, pol bool) (ssa.Value, bool) {
	for {
		if u, ok := v.(*ssa.UnOp); ok && u.Op == token.NOT {
			v, pol = u.X, !pol
			continue
		}
		// `x == true`, `x != false`, … (e.g. from `switch x { case true: }`)
		if b, ok := v.(*ssa.BinOp); ok && (b.Op == token.EQL || b.Op == token.NEQ) {
			var other ssa.Value
			var cv bool
			if c, ok := b.Y.(*ssa.Const); ok && c.Value != nil && c.Value.Kind() == constant.Bool {
				other, cv = b.X, constant.BoolVal(c.Value)
			} else if c, ok := b.X.(*ssa.Const); ok && c.Value != nil && c.Value.Kind() == constant.Bool {
				other, cv = b.Y, constant.BoolVal(c.Value)
			}
			if other != nil {
				same := (b.Op == token.EQL) == cv // cond true means `other` is true
				if !same {
					pol = !pol
				}
				v = other
				continue
			}
		}
		return v, pol
	}
}

// singleStore returns the only value ever stored into an Alloc (captured
// parameters and single-assignment locals are spilled this way by go/ssa).
func singleStore(a *ssa.Alloc) ssa.Value {
	var val ssa.Value
	n := 0
	for _, r := range *a.Referrers() {
		if st, ok := r.(*ssa.Store); ok && st.Addr == a {
			val = st.Val
			n++
		}
	}
	if n == 1 {
		return val
	}
	return nil
}

// freeVarBinding maps a closure's free variable to the value bound at its
// (unique) MakeClosure site.
func freeVarBinding(fv *ssa.FreeVar) ssa.Value {
	fn := fv.Parent()
	par := fn.Parent()
	if par == nil {
		return nil
	}
	idx := -1
	for i, f := range fn.FreeVars {
		if f == fv {
			idx = i
		}
	}
	if idx < 0 {
		return nil
	}
	var found ssa.Value
	n := 0
	for _, b := range par.Blocks {
		for _, in := range b.Instrs {
			if mc, ok := in.(*ssa.MakeClosure); ok && mc.Fn == fn {
				found = mc.Bindings[idx]
				n++
			}
		}
	}
	if n == 1 {
		return found
	}
	return nil
}

// resolve looks through conversions that keep the value, loads of
// single-store allocs and closure bindings of such allocs.
func resolve(v ssa.Value) ssa.Value {
	for i := 0; i < 64; i++ {
		switch x := v.(type) {
		case *ssa.ChangeType:
			v = x.X
		case *ssa.MakeInterface:
			v = x.X
		case *ssa.ChangeInterface:
			v = x.X
		case *ssa.UnOp:
			if x.Op != token.MUL {
				return v
			}
			switch a := x.X.(type) {
			case *ssa.Alloc:
				if s := singleStore(a); s != nil {
					v = s
					continue
				}
				return v
			case *ssa.FreeVar:
				if b := freeVarBinding(a); b != nil {
					if al, ok := b.(*ssa.Alloc); ok {
						if s := singleStore(al); s != nil {
							v = s
							continue
						}
					}
				}
				return v
			default:
				return v
			}
		default:
			return v
		}
	}
	return v
}

// accessPath describes v as root.f1.f2... following field selections and
// pointer loads.  ok is false when v is not a pure access path.
type accessPathT struct {
	Root   ssa.Value
	Fields []*types.Var
}

func (a accessPathT) String() string {
	var sb strings.Builder
	if a.Root != nil {
		sb.WriteString(a.Root.Name())
	}
	for _, f := range a.Fields {
		sb.WriteString("." + f.Name())
	}
	return sb.String()
}

func (a accessPathT) FieldNames() string {
	var s []string
	for _, f := range a.Fields {
		s = append(s, f.Name())
	}
	return strings.Join(s, ".")
}

func structField(t types.Type, idx int) *types.Var {
	if p, ok := t.Underlying().(*types.Pointer); ok {
		t = p.Elem()
	}
	st, ok := t.Underlying().(*types.Struct)
	if !ok || idx >= st.NumFields() {
		return nil
	}
	return st.Field(idx)
}

// accessPath walks backwards from a value (or an address) to its root.
func accessPath(v ssa.Value) accessPathT {
	var rev []*types.Var
	for i := 0; i < 64; i++ {
		v = resolve(v)
		switch x := v.(type) {
		case *ssa.UnOp:
			if x.Op == token.MUL {
				v = x.X
				continue
			}
		case *ssa.FieldAddr:
			rev = append(rev, structField(x.X.Type(), x.Field))
			v = x.X
			continue
		case *ssa.Field:
			rev = append(rev, structField(x.X.Type(), x.Field))
			v = x.X
			continue
		}
		break
	}
	ap := accessPathT{Root: v}
	for i := len(rev) - 1; i >= 0; i-- {
		ap.Fields = append(ap.Fields, rev[i])
	}
	return ap
}

// samePath reports whether two values are loads of the same access path from
// the same root.
func samePath(a, b ssa.Value) bool {
	pa, pb := accessPath(a), accessPath(b)
	if pa.Root != pb.Root || len(pa.Fields) != len(pb.Fields) {
		return false
	}
	for i := range pa.Fields {
		if pa.Fields[i] != pb.Fields[i] {
			return false
		}
	}
	return true
}

// sameValue: identical SSA value after resolve, or equal access paths with at
// least one field (two loads of the same location).
func sameValue(a, b ssa.Value) bool {
	ra, rb := resolve(a), resolve(b)
	if ra == rb {
		return true
	}
	pa := accessPath(a)
	if len(pa.Fields) == 0 {
		return false
	}
	return samePath(a, b)
}

func constOf(v ssa.Value) *ssa.Const {
	c, _ := resolve(v).(*ssa.Const)
	return c
}

func isConstBool(v ssa.Value, b bool) bool {
	c := constOf(v)
	if c == nil || c.Value == nil || c.Value.Kind() != constant.Bool {
		return false
	}
	return constant.BoolVal(c.Value) == b
}

func isConstInt(v ssa.Value, n int64) bool {
	c := constOf(v)
	if c == nil || c.Value == nil {
		return false
	}
	if c.Value.Kind() != constant.Int {
		if c.Value.Kind() == constant.Float {
			f, _ := constant.Float64Val(c.Value)
			return f == float64(n)
		}
		return false
	}
	i, ok := constant.Int64Val(c.Value)
	return ok && i == n
}

func constInt(v ssa.Value) (int64, bool) {
	c := constOf(v)
	if c == nil || c.Value == nil || c.Value.Kind() != constant.Int {
		return 0, false
	}
	return constant.Int64Val(c.Value)
}

func constString(v ssa.Value) (string, bool) {
	c := constOf(v)
	if c == nil || c.Value == nil || c.Value.Kind() != constant.String {
		return "", false
	}
	return constant.StringVal(c.Value), true
}

func isNilConst(v ssa.Value) bool {
	c := constOf(v)
	return c != nil && c.Value == nil
}

// ---------------------------------------------------------------------------
// calls

// staticCallee returns the statically known callee (functions, methods,
// closures called directly).
func staticCallee(c ssa.CallInstruction) *ssa.Function {
	return c.Common().StaticCallee()
}

// calleeIs tests a static call against pkgpath + name ("F" or "(*T).M"/"(T).M").
func calleeIs(c ssa.CallInstruction, pkg, name string) bool {
	f := staticCallee(c)
	if f == nil {
		return false
	}
	if o := f.Origin(); o != nil {
		f = o
	}
	pk := fnPkg(f)
	if pk == nil || pk.Pkg.Path() != pkg {
		return false
	}
	if strings.HasPrefix(name, "(") {
		return f.RelString(pk.Pkg) == name
	}
	return f.Name() == name && f.Signature.Recv() == nil
}

// invokeIs tests an interface method call by method name (and optionally the
// interface's named type).
func invokeIs(c ssa.CallInstruction, method string) bool {
	cc := c.Common()
	return cc.IsInvoke() && cc.Method.Name() == method
}

// methodCallNamed matches either an invoke of `method` or a static call of a
// method with that name; returns the receiver value.
func methodCallNamed(c ssa.CallInstruction, method string) (ssa.Value, bool) {
	cc := c.Common()
	if cc.IsInvoke() {
		if cc.Method.Name() == method {
			return cc.Value, true
		}
		return nil, false
	}
	f := cc.StaticCallee()
	if f != nil && f.Signature.Recv() != nil && f.Name() == method && len(cc.Args) > 0 {
		return cc.Args[0], true
	}
	return nil, false
}

// callArgs returns the arguments without the receiver.
func callArgs(c ssa.CallInstruction) []ssa.Value {
	cc := c.Common()
	if cc.IsInvoke() {
		return cc.Args
	}
	f := cc.StaticCallee()
	if f != nil && f.Signature.Recv() != nil && len(cc.Args) > 0 {
		return cc.Args[1:]
	}
	return cc.Args
}

func isBuiltinCall(c ssa.CallInstruction, name string) bool {
	b, ok := c.Common().Value.(*ssa.Builtin)
	return ok && b.Name() == name
}

// allInstrs iterates over the instructions of fn.
func allInstrs(fn *ssa.Function, f func(ssa.Instruction)) {
	for _, b := range fn.Blocks {
		for _, in := range b.Instrs {
			f(in)
		}
	}
}

// callsIn lists call instructions (call/go/defer) of fn satisfying pred.
func callsIn(fn *ssa.Function, pred func(ssa.CallInstruction) bool) []ssa.CallInstruction {
	var out []ssa.CallInstruction
	allInstrs(fn, func(in ssa.Instruction) {
		if c, ok := in.(ssa.CallInstruction); ok && pred(c) {
			out = append(out, c)
		}
	})
	return out
}

// withAnon returns fn and all functions nested in it.
func withAnon(fn *ssa.Function) []*ssa.Function {
	out := []*ssa.Function{fn}
	for _, a := range fn.AnonFuncs {
		out = append(out, withAnon(a)...)
	}
	return out
}

// extractOf returns the Extract of tuple t with the given index, if any.
func extractOf(t ssa.Value, idx int) ssa.Value {
	refs := t.Referrers()
	if refs == nil {
		return nil
	}
	for _, r := range *refs {
		if e, ok := r.(*ssa.Extract); ok && e.Index == idx {
			return e
		}
	}
	return nil
}

// tupleSource: if v is `extract call #i` returns the call and i.
func tupleSource(v ssa.Value) (ssa.Value, int) {
	v = resolve(v)
	if e, ok := v.(*ssa.Extract); ok {
		return e.Tuple, e.Index
	}
	return nil, -1
}

// ---------------------------------------------------------------------------
// CFG: edge guards and reachability

// edgeFact returns the (negation-stripped) branch condition and the polarity
// it has along edge b -> b.Succs[i].
func edgeFact(b *ssa.BasicBlock, i int) (ssa.Value, bool, bool) {
	if len(b.Instrs) == 0 {
		return nil, false, false
	}
	iff, ok := b.Instrs[len(b.Instrs)-1].(*ssa.If)
	if !ok {
		return nil, false, false
	}
	v, pol := stripNot(iff.Cond, i == 0)
	return v, pol, true
}

// EdgePred accepts an edge on which `cond` is known to be `pol`.
type EdgePred func(cond ssa.Value, pol bool) bool

// blocksReachableAvoidingEdges does a forward search from the entry block, not
// crossing any edge accepted by pred.
func blocksReachableAvoidingEdges(fn *ssa.Function, pred EdgePred) map[*ssa.BasicBlock]bool {
	seen := map[*ssa.BasicBlock]bool{}
	if len(fn.Blocks) == 0 {
		return seen
	}
	var walk func(b *ssa.BasicBlock)
	walk = func(b *ssa.BasicBlock) {
		if seen[b] {
			return
		}
		seen[b] = true
		for i, s := range b.Succs {
			if c, pol, ok := edgeFact(b, i); ok && pred(c, pol) {
				continue
			}
			walk(s)
		}
	}
	walk(fn.Blocks[0])
	return seen
}

// guardedBy: every entry→target path crosses an edge accepted by pred.
func guardedBy(target ssa.Instruction, pred EdgePred) bool {
	fn := target.Parent()
	reach := blocksReachableAvoidingEdges(fn, pred)
	return !reach[target.Block()]
}

// guardEdges lists the accepted edges (for evidence).
func guardEdges(fn *ssa.Function, pred EdgePred) [][2]*ssa.BasicBlock {
	var out [][2]*ssa.BasicBlock
	for _, b := range fn.Blocks {
		for i, s := range b.Succs {
			if c, pol, ok := edgeFact(b, i); ok && pred(c, pol) {
				out = append(out, [2]*ssa.BasicBlock{b, s})
			}
		}
	}
	return out
}

func instrIndex(in ssa.Instruction) int {
	for i, x := range in.Block().Instrs {
		if x == in {
			return i
		}
	}
	return -1
}

// reachFrom collects the instructions reachable strictly after `from`
// (from == nil: from the function entry of fn) without executing past an
// instruction for which stop returns true.  Stop instructions themselves are
// included in the result.  edgeStop optionally blocks edges.
func reachFrom(fn *ssa.Function, from ssa.Instruction, stop func(ssa.Instruction) bool, edgeStop EdgePred) []ssa.Instruction {
	var out []ssa.Instruction
	seenBlock := map[*ssa.BasicBlock]bool{}
	var walkBlock func(b *ssa.BasicBlock, start int)
	walkBlock = func(b *ssa.BasicBlock, start int) {
		if start == 0 {
			if seenBlock[b] {
				return
			}
			seenBlock[b] = true
		}
		for i := start; i < len(b.Instrs); i++ {
			in := b.Instrs[i]
			out = append(out, in)
			if stop != nil && stop(in) {
				return
			}
		}
		for i, s := range b.Succs {
			if edgeStop != nil {
				if c, pol, ok := edgeFact(b, i); ok && edgeStop(c, pol) {
					continue
				}
			}
			walkBlock(s, 0)
		}
	}
	if from == nil {
		if len(fn.Blocks) > 0 {
			walkBlock(fn.Blocks[0], 0)
		}
	} else {
		walkBlock(from.Block(), instrIndex(from)+1)
	}
	return out
}

// exitsReachableAvoiding returns the function exits (Return, and Panic when
// withPanic) reachable from `from` without passing a `pass` instruction.
func exitsReachableAvoiding(fn *ssa.Function, from ssa.Instruction, pass func(ssa.Instruction) bool) []ssa.Instruction {
	var out []ssa.Instruction
	for _, in := range reachFrom(fn, from, pass, nil) {
		if pass(in) {
			continue
		}
		if _, ok := in.(*ssa.Return); ok {
			out = append(out, in)
		}
	}
	return out
}

// retResults returns the values a Return hands back, looking through the
// result spilling go/ssa performs in functions with defers (`*r0 = v;
// rundefers; t = *r0; return t`).  Returns of the recover block yield nil.
func retResults(r *ssa.Return) []ssa.Value {
	if r.Parent().Recover == r.Block() {
		return nil
	}
	out := make([]ssa.Value, len(r.Results))
	for i, v := range r.Results {
		out[i] = v
		u, ok := v.(*ssa.UnOp)
		if !ok || u.Op != token.MUL {
			continue
		}
		al, ok := u.X.(*ssa.Alloc)
		if !ok {
			continue
		}
		instrs := r.Block().Instrs
		for j := len(instrs) - 1; j >= 0; j-- {
			if st, ok := instrs[j].(*ssa.Store); ok && st.Addr == ssa.Value(al) {
				out[i] = st.Val
				break
			}
		}
	}
	return out
}

// dominates: instruction a dominates instruction b (same function).
func dominates(a, b ssa.Instruction) bool {
	if a.Block() == b.Block() {
		return instrIndex(a) < instrIndex(b)
	}
	return a.Block().Dominates(b.Block())
}

// ---------------------------------------------------------------------------
// field references

type FieldRef struct {
	Fn    *ssa.Function
	Addr  ssa.Value       // *ssa.FieldAddr or *ssa.Field
	Kind  string          // "store" | "load" | "addr"
	Instr ssa.Instruction // the store / load / using instruction
	Val   ssa.Value       // stored value (stores) or loaded value (loads)
}

// fieldRefs enumerates all uses of a struct field in the given functions.
func fieldRefs(fns []*ssa.Function, field *types.Var) []FieldRef {
	var out []FieldRef
	for _, fn := range fns {
		allInstrs(fn, func(in ssa.Instruction) {
			switch x := in.(type) {
			case *ssa.FieldAddr:
				if structField(x.X.Type(), x.Field) != field {
					return
				}
				for _, r := range *x.Referrers() {
					switch u := r.(type) {
					case *ssa.Store:
						if u.Addr == x {
							out = append(out, FieldRef{fn, x, "store", u, u.Val})
						} else {
							out = append(out, FieldRef{fn, x, "addr", u, nil})
						}
					case *ssa.UnOp:
						if u.Op == token.MUL {
							out = append(out, FieldRef{fn, x, "load", u, u})
						} else {
							out = append(out, FieldRef{fn, x, "addr", u, nil})
						}
					case *ssa.DebugRef:
					default:
						out = append(out, FieldRef{fn, x, "addr", r, nil})
					}
				}
			case *ssa.Field:
				if structField(x.X.Type(), x.Field) != field {
					return
				}
				out = append(out, FieldRef{fn, x, "load", x, x})
			}
		})
	}
	return out
}

// compositeInits finds composite-literal style initialisations of a field:
// stores through FieldAddr of a fresh Alloc are already covered by fieldRefs.

// mapOpsOn lists the instructions operating on map value m (a loaded field).
type MapOp struct {
	Kind  string // "update" | "delete" | "lookup" | "range" | "len" | "other"
	Instr ssa.Instruction
}

func mapOpsOn(m ssa.Value) []MapOp {
	var out []MapOp
	refs := m.Referrers()
	if refs == nil {
		return nil
	}
	for _, r := range *refs {
		switch u := r.(type) {
		case *ssa.MapUpdate:
			if u.Map == m {
				out = append(out, MapOp{"update", u})
			} else {
				out = append(out, MapOp{"other", u})
			}
		case *ssa.Lookup:
			out = append(out, MapOp{"lookup", u})
		case *ssa.Range:
			out = append(out, MapOp{"range", u})
		case *ssa.Call:
			if isBuiltinCall(u, "delete") {
				out = append(out, MapOp{"delete", u})
			} else if isBuiltinCall(u, "len") {
				out = append(out, MapOp{"len", u})
			} else if isBuiltinCall(u, "clear") {
				out = append(out, MapOp{"delete", u})
			} else {
				out = append(out, MapOp{"other", u})
			}
		case *ssa.BinOp:
			out = append(out, MapOp{"cmp", u})
		case *ssa.DebugRef:
		default:
			out = append(out, MapOp{"other", r})
		}
	}
	return out
}

// ---------------------------------------------------------------------------
// backward dependence (K9): the set of "leaf" values a value is computed from

type depOpts struct {
	throughCalls bool // treat call results as depending on their arguments
}

// deps returns the transitive operands of v inside its function, looking
// through loads of single-store allocs; leaves are parameters, free variables,
// constants, globals, calls (unless throughCalls), field loads (reported as the
// load itself and also followed to the root).
func deps(v ssa.Value, opt depOpts) map[ssa.Value]bool {
	seen := map[ssa.Value]bool{}
	var walk func(v ssa.Value)
	walk = func(v ssa.Value) {
		if v == nil || seen[v] {
			return
		}
		seen[v] = true
		switch x := v.(type) {
		case *ssa.Parameter, *ssa.FreeVar, *ssa.Const, *ssa.Global, *ssa.Function, *ssa.Builtin:
			return
		case *ssa.Alloc:
			for _, r := range *x.Referrers() {
				if st, ok := r.(*ssa.Store); ok && st.Addr == x {
					walk(st.Val)
				}
				// stores through field addresses of a local struct
				if fa, ok := r.(*ssa.FieldAddr); ok {
					for _, rr := range *fa.Referrers() {
						if st, ok := rr.(*ssa.Store); ok && st.Addr == fa {
							walk(st.Val)
						}
					}
				}
				if ia, ok := r.(*ssa.IndexAddr); ok {
					for _, rr := range *ia.Referrers() {
						if st, ok := rr.(*ssa.Store); ok && st.Addr == ia {
							walk(st.Val)
						}
					}
				}
			}
			return
		case *ssa.Call:
			if b, isB := x.Call.Value.(*ssa.Builtin); isB && (b.Name() == "min" || b.Name() == "max") {
				// value-combining builtins: a clamp written with min/max depends on its
				// arguments exactly like the if-form does through its φ
				for _, a := range x.Call.Args {
					walk(a)
				}
				return
			}
			if opt.throughCalls {
				for _, a := range x.Call.Args {
					walk(a)
				}
				if x.Call.IsInvoke() {
					walk(x.Call.Value)
				}
			}
			return
		}
		if in, ok := v.(ssa.Instruction); ok {
			for _, op := range in.Operands(nil) {
				if *op != nil {
					walk(*op)
				}
			}
		}
	}
	walk(v)
	return seen
}

// dependsOn: does v (transitively) depend on target?
func dependsOn(v, target ssa.Value, opt depOpts) bool {
	return deps(v, opt)[target]
}

// ---------------------------------------------------------------------------
// misc

func paramNamed(fn *ssa.Function, name string) *ssa.Parameter {
	for _, p := range fn.Params {
		if p.Name() == name {
			return p
		}
	}
	return nil
}

func sortedKeys[V any](m map[string]V) []string {
	var ks []string
	for k := range m {
		ks = append(ks, k)
	}
	sort.Strings(ks)
	return ks
}

func fnName(fn *ssa.Function) string {
	if fn == nil {
		return "<nil>"
	}
	pk := fnPkg(fn)
	if pk != nil {
		return fn.RelString(pk.Pkg)
	}
	return fn.String()
}

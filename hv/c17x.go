package main

import (
	"go/token"
	"go/types"

	"golang.org/x/tools/go/ssa"
)

// C17 extra rules, added after independent seeded changes were missed.

func c17blockReaches(from, to *ssa.BasicBlock) bool {
	seen := map[*ssa.BasicBlock]bool{}
	var walk func(b *ssa.BasicBlock) bool
	walk = func(b *ssa.BasicBlock) bool {
		if b == to {
			return true
		}
		if seen[b] {
			return false
		}
		seen[b] = true
		for _, s := range b.Succs {
			if walk(s) {
				return true
			}
		}
		return false
	}
	return walk(from)
}

// c17AssemblyContiguous (R6): the bytes handed to the ClientHello parser must
// be bytes of the datagram. Where several CRYPTO frames are joined into one
// buffer sized by the last frame's end (make(offset+len)), every gap between
// frames would be filled with bytes that were never received; a server name
// read across such a gap rewrites the destination to a host the client never
// named. Structural form: the function that allocates the assembly buffer
// contains a test `frame.Offset ==/!= previous.Offset + len(previous.Data)`
// whose mismatch edge cannot reach the allocation.
func c17AssemblyContiguous(c *Check) {
	p := c.P
	const rule = "C17.R6 CRYPTO frames are joined into one buffer only when each frame starts exactly where the previous one ended: the ClientHello bytes given to the parser are bytes of the datagram, never fill bytes"
	isOffset := func(v ssa.Value) bool { return fieldNameOfLoad(v) == "Offset" }
	isEnd := func(v ssa.Value) bool {
		bo, ok := resolve(v).(*ssa.BinOp)
		if !ok || bo.Op != token.ADD {
			return false
		}
		hasOff, hasLen := false, false
		for d := range deps(bo, depOpts{}) {
			if isOffset(d) {
				hasOff = true
			}
			if call, ok := d.(*ssa.Call); ok && isBuiltinCall(call, "len") && fieldNameOfLoad(call.Call.Args[0]) == "Data" {
				hasLen = true
			}
		}
		return hasOff && hasLen
	}
	n := 0
	for _, fn := range p.RepoFns {
		if pk := fnPkg(fn); pk == nil || pk.Pkg.Path() != pSniffQUIC {
			continue
		}
		var mk *ssa.MakeSlice
		allInstrs(fn, func(in ssa.Instruction) {
			m, ok := in.(*ssa.MakeSlice)
			if !ok || !isBytesOrString(m.Type()) {
				return
			}
			for d := range deps(m.Len, depOpts{}) {
				if isOffset(d) {
					mk = m
				}
			}
		})
		if mk == nil {
			continue
		}
		n++
		c.Saw(fnName(fn))
		found, good := false, false
		allInstrs(fn, func(in ssa.Instruction) {
			iff, ok := in.(*ssa.If)
			if !ok {
				return
			}
			b, ok := iff.Cond.(*ssa.BinOp)
			if !ok || (b.Op != token.EQL && b.Op != token.NEQ) {
				return
			}
			if !((isOffset(b.X) && isEnd(b.Y)) || (isOffset(b.Y) && isEnd(b.X))) {
				return
			}
			found = true
			mismatch := iff.Block().Succs[0]
			if b.Op == token.EQL {
				mismatch = iff.Block().Succs[1]
			}
			if !c17blockReaches(mismatch, mk.Block()) {
				good = true
			}
		})
		detail := "frames are joined into a buffer sized by the last frame's end without a test that each frame starts where the previous one ended"
		if found {
			detail = "the contiguity test's mismatch edge still reaches the allocation of the assembly buffer"
		}
		c.Req(found && good, "C17.R6:assembly-contiguous:"+fnName(fn), rule, p.InstrPos(mk), detail+": a gap between CRYPTO frames is handed to the ClientHello parser as zero bytes, and a name read from them rewrites the destination")
	}
	if n == 0 {
		c.Notes = append(c.Notes, "C17.R6: no multi-frame assembly buffer in sniff/internal/quic on this tree (nothing to check)")
	}
}

// c17NoPooledReplay (R7): the replay bytes Sniffer.TCP returns are written to
// the target by the server *after* TCP returned. If TCP (or a helper it calls,
// also through defer) gives a byte buffer back to a sync.Pool, the returned
// slice must be a fresh copy; otherwise a later sniff that takes the buffer from
// the pool overwrites bytes that are still waiting to be replayed ("nothing
// injected" / "bytes forwarded intact").
func c17NoPooledReplay(c *Check, sniffTCP *ssa.Function) {
	p := c.P
	const rule = "C17.R7 the replay bytes returned by Sniffer.TCP do not live in storage that the sniffer hands back to a sync.Pool: they stay intact until the server has written them to the target"
	grp := helperGroup(p, sniffTCP, func(f *ssa.Function) bool { return fnPkg(f) == fnPkg(sniffTCP) })
	var put ssa.Instruction
	allInstrsOf(grp, func(in ssa.Instruction) {
		ci, ok := in.(ssa.CallInstruction)
		if !ok {
			return
		}
		if g := staticCallee(ci); g != nil && g.String() == "(*sync.Pool).Put" {
			put = in
		}
	})
	if put == nil {
		c.OK("C17.R7:no-pooled-replay", rule, p.Pos(sniffTCP.Pos()))
		return
	}
	// a pool is in play: every successful return must hand back a fresh copy made in TCP itself
	fresh := func(v ssa.Value) bool {
		v = resolve(v)
		switch x := v.(type) {
		case *ssa.Call:
			if isBuiltinCall(x, "append") {
				return isNilConst(x.Call.Args[0])
			}
			if g := staticCallee(x); g != nil && (g.String() == "bytes.Clone" || g.String() == "slices.Clone") {
				return true
			}
		case *ssa.MakeSlice:
			return true
		}
		return false
	}
	bad := ""
	allInstrs(sniffTCP, func(in ssa.Instruction) {
		r, ok := in.(*ssa.Return)
		if !ok {
			return
		}
		res := retResults(r)
		if len(res) != 2 || !isNilConst(res[1]) {
			return
		}
		if _, isSlice := res[0].Type().Underlying().(*types.Slice); !isSlice {
			return
		}
		vals := []ssa.Value{res[0]}
		if ph, ok := res[0].(*ssa.Phi); ok {
			vals = ph.Edges
		}
		for _, v := range vals {
			if !isNilConst(v) && !fresh(v) {
				bad = p.InstrPos(r)
			}
		}
	})
	c.Req(bad == "", "C17.R7:no-pooled-replay", rule, bad, "Sniffer.TCP returns replay bytes that are not a fresh copy while the sniffer gives a buffer back to a sync.Pool ("+p.InstrPos(put)+"): the next sniff reuses the storage before the server has replayed the bytes, so one stream's target receives another stream's request head")
}

package main

import (
	"golang.org/x/tools/go/ssa"
)

// C09 extra rule (added after an independent seeded change was missed): first
// match is over the *given* rule list, so the compiler of the rule set must
// keep every rule.  Structural form: the slice stored into the rule-set's rule
// field is proved to have exactly len(<input rules>) elements (a prefix cut
// after a "catch-all" rule, a filtered copy or an early break change the
// length), by the linear prover with φ case split.
func c09Extra(c *Check) {
	p := c.P
	const rule = "C09.R6 the compiled rule set keeps every input rule: the slice stored in its rule field has exactly len(input rules) elements"
	fRules := p.Field(pACL, "compiledRuleSetImpl", "Rules")
	if fRules == nil {
		c.Unres("acl.compiledRuleSetImpl.Rules")
		return
	}
	n := 0
	for _, fn := range p.RepoFns {
		if pk := fnPkg(fn); pk == nil || pk.Pkg.Path() != pACL {
			continue
		}
		allInstrs(fn, func(in ssa.Instruction) {
			st, ok := in.(*ssa.Store)
			if !ok {
				return
			}
			fa, ok := st.Addr.(*ssa.FieldAddr)
			if !ok {
				return
			}
			f := structField(fa.X.Type(), fa.Field)
			// generic instantiations have their own field objects: match owner type and field by name
			if f == nil || f.Name() != fRules.Name() || namedOf(fa.X.Type()) == nil || namedOf(fa.X.Type()).Obj().Name() != "compiledRuleSetImpl" {
				return
			}
			// the input: the slice parameter of text rules
			var input *ssa.Parameter
			root := fn
			for root.Parent() != nil {
				root = root.Parent()
			}
			for _, prm := range root.Params {
				if n := namedOfElem(prm.Type()); n == "TextRule" {
					input = prm
				}
			}
			if input == nil {
				return
			}
			n++
			c.Saw(fnName(fn))
			lp := newLinProver(p, fn)
			cx := lp.newCtx(st)
			got, want := lp.lenOf(st.Val, cx), lp.lenOf(input, cx)
			ok2 := lp.proveAt(st, got, want, 0, nil) && lp.proveAt(st, want, got, 0, nil)
			c.Req(ok2, "C09.R6:keeps-every-rule:"+fnName(fn), rule, p.InstrPos(st), "the rule slice stored in the compiled rule set is not proved to have len(input rules) elements (rules are dropped, e.g. everything after a presumed catch-all): later rules never get their first-match turn")
		})
	}
	c.Floor("C09.R6:rule-set-constructions", n, 1)
}

// namedOfElem: name of the element type of a slice type, "" otherwise.
func namedOfElem(t interface{ String() string }) string {
	s := t.String()
	// []<pkg>.TextRule
	const suf = ".TextRule"
	if len(s) > len(suf)+2 && s[:2] == "[]" && s[len(s)-len(suf):] == suf {
		return "TextRule"
	}
	return ""
}

package main

import (
	"fmt"
	"go/constant"
	"go/token"
	"go/types"
	"net/textproto"
	"os"
	"path/filepath"
	"sort"
	"strings"

	"golang.org/x/tools/go/ssa"
)

func init() {
	register(&propDef{
		ID:        "C10",
		Run:       checkC10,
		Technique: "static analysis: path-sensitive evaluation of the handshake functions (every acyclic entry→site path, φ resolved per path) with a linear-inequality prover over the branch conditions, value identity between controller argument and reported rate, codec agreement of the header encoders/decoders (go/ssa)",
		Explanation: "R1 on every feasible successful handshake path (server: ServeHTTP behind the auth-ok edge, client: connect returning nil error) the rate handed to the application (EventLogger.Connect argument / HandshakeInfo.Tx) equals the argument of the UseBrutal call executed on that path and is 0 on a path that installs the configured controller; " +
			"R2 at every UseBrutal call site, on every feasible path reaching it: rate <= the peer's declared Rx (client: unless the server declared 0 = unlimited), rate <= own MaxTx (server: unless MaxTx is 0 = unlimited), and the rate equals one of the two limits (it is the minimum itself); " +
			"R3 UseBrutal is reached only with rate >= 1 and never on the server's IgnoreClientBandwidth edge / the client's RxAuto edge; UseConfigured is reached only on that edge or when the client's Rx (server side) / own MaxTx (client side) is 0; every successful path installs exactly one controller; the server's responses declare Rx = MaxRx and RxAuto = IgnoreClientBandwidth, the client's request declares Rx = its MaxRx; " +
			"R4 encoder and decoder of the request and of the response header agree on header name, radix and 64-bit width of Rx and on the 'auto' literal, which is written exactly on the RxAuto edge and is the only way RxAuto gets set; header name, literal and status code equal the tokens in PROTOCOL.md's fenced request/response blocks; " +
			"R5 UseBrutal performs exactly one SetCongestionControl on its own connection with a sender constructed from its rate argument, the constructor stores that argument (64-bit conversions only) into the sender's rate field, which has no other writer; UseConfigured installs nothing for the 'reno' type and exactly one BBR sender for every other normalised type. " +
			"Paths are enumerated exhaustively (acyclic CFG paths, phi nodes and read-only captured locals resolved per path, provably contradictory paths dropped); inequalities are decided by the linear prover from the branch conditions of the path; min/max builtins and calls of pure integer helpers are evaluated by cases; helpers that install the controller are summarised (one installation per path, which result/parameter carries the rate).",
		NotDecided: []string{
			"the rate actually achieved on the wire (C11)",
			"strconv's behaviour on overflow / malformed numbers (library); a discarded parse error is read as the value strconv returns",
			"that CongestionConfig.Type has been normalised by NormalizeType before the handshake (config fill)",
			"the tx argument of Authenticator.Authenticate (it is the client's declaration, not the enforced rate)",
		},
		Assumptions: []string{
			"the handshake functions are loop free on the way to the controller installation (a loop makes the obligation undecided)",
			"config structs are not modified between two reads inside one handshake function",
			"uint64 values are treated as mathematical integers by the prover; no arithmetic is applied to rates in the claimed shapes",
		},
	})
}

// ---------------------------------------------------------------------------
// small helpers

// c10norm strips `x == true` / `x != false` wrappers and negations.
func c10norm(cond ssa.Value, pol bool) (ssa.Value, bool) {
	for i := 0; i < 8; i++ {
		cond, pol = stripNot(cond, pol)
		b, ok := cond.(*ssa.BinOp)
		if !ok || (b.Op != token.EQL && b.Op != token.NEQ) {
			return cond, pol
		}
		var other ssa.Value
		var k bool
		switch {
		case isConstBool(b.Y, true):
			other, k = b.X, true
		case isConstBool(b.Y, false):
			other, k = b.X, false
		case isConstBool(b.X, true):
			other, k = b.Y, true
		case isConstBool(b.X, false):
			other, k = b.Y, false
		default:
			return cond, pol
		}
		if (b.Op == token.EQL) != k {
			pol = !pol
		}
		cond = other
	}
	return cond, pol
}

// c10calleeName returns package path, receiver type name ("" for functions) and
// name of a statically resolved callee.
func c10calleeName(ci ssa.CallInstruction) (pkg, recv, name string) {
	f := staticCallee(ci)
	if f == nil {
		return "", "", ""
	}
	if o := f.Origin(); o != nil {
		f = o
	}
	if pk := fnPkg(f); pk != nil {
		pkg = pk.Pkg.Path()
	} else if f.Object() != nil && f.Object().Pkg() != nil {
		pkg = f.Object().Pkg().Path()
	}
	if r := f.Signature.Recv(); r != nil {
		if n := namedOf(r.Type()); n != nil {
			recv = n.Obj().Name()
		}
	}
	return pkg, recv, f.Name()
}

func c10isCallTo(ci ssa.CallInstruction, pkg, recv, name string) bool {
	p, r, n := c10calleeName(ci)
	return p == pkg && r == recv && n == name
}

// c10convOnly looks through value-preserving wrappers and integer conversions.
func c10convOnly(v ssa.Value) ssa.Value {
	for i := 0; i < 16; i++ {
		v = resolve(v)
		switch x := v.(type) {
		case *ssa.Convert:
			if isIntType(x.Type()) && isIntType(x.X.Type()) {
				sb := x.X.Type().Underlying().(*types.Basic)
				db := x.Type().Underlying().(*types.Basic)
				// only 64-bit to 64-bit conversions keep every uint64 rate apart
				if c10bits(sb) == 64 && c10bits(db) == 64 {
					v = x.X
					continue
				}
			}
			return v
		default:
			return v
		}
	}
	return v
}

func c10bits(b *types.Basic) int {
	switch b.Kind() {
	case types.Int64, types.Uint64:
		return 64
	case types.Int, types.Uint, types.Uintptr:
		return 0 // platform dependent
	case types.Int32, types.Uint32:
		return 32
	case types.Int16, types.Uint16:
		return 16
	case types.Int8, types.Uint8:
		return 8
	}
	return 0
}

func c10isUint64(t types.Type) bool {
	b, ok := t.Underlying().(*types.Basic)
	return ok && b.Kind() == types.Uint64
}

// c10litFields returns the per-field stored values of a struct value built in
// a local (composite literal or field-wise assignment) and passed by value.
func c10litFields(arg ssa.Value) (map[*types.Var]ssa.Value, bool) {
	u, ok := arg.(*ssa.UnOp)
	if !ok || u.Op != token.MUL {
		return nil, false
	}
	al, ok := u.X.(*ssa.Alloc)
	if !ok {
		return nil, false
	}
	out := map[*types.Var]ssa.Value{}
	for _, r := range *al.Referrers() {
		switch x := r.(type) {
		case *ssa.FieldAddr:
			f := structField(x.X.Type(), x.Field)
			for _, rr := range *x.Referrers() {
				switch y := rr.(type) {
				case *ssa.Store:
					if y.Addr != ssa.Value(x) {
						return nil, false
					}
					if _, dup := out[f]; dup {
						return nil, false
					}
					out[f] = y.Val
				case *ssa.UnOp, *ssa.DebugRef:
				default:
					return nil, false
				}
			}
		case *ssa.Store:
			return nil, false // whole-struct store
		case *ssa.UnOp, *ssa.DebugRef:
		default:
			return nil, false
		}
	}
	return out, true
}

// ---------------------------------------------------------------------------
// path engine

// c10paths enumerates the acyclic paths from the entry block to stopAt (or, with
// stopAt == nil, to every returning block).  loop reports a cycle on the way.
func c10paths(fn *ssa.Function, stopAt *ssa.BasicBlock, limit int) (paths [][]*ssa.BasicBlock, loop, capped bool) {
	if len(fn.Blocks) == 0 {
		return nil, false, false
	}
	isEnd := func(b *ssa.BasicBlock) bool {
		if stopAt != nil {
			return b == stopAt
		}
		if b == fn.Recover || len(b.Instrs) == 0 {
			return false
		}
		_, ok := b.Instrs[len(b.Instrs)-1].(*ssa.Return)
		return ok
	}
	// blocks from which an end is reachable
	can := map[*ssa.BasicBlock]bool{}
	for changed := true; changed; {
		changed = false
		for _, b := range fn.Blocks {
			if can[b] {
				continue
			}
			ok := isEnd(b)
			for _, s := range b.Succs {
				if can[s] {
					ok = true
				}
			}
			if ok {
				can[b] = true
				changed = true
			}
		}
	}
	onPath := map[*ssa.BasicBlock]bool{}
	var cur []*ssa.BasicBlock
	var walk func(b *ssa.BasicBlock)
	walk = func(b *ssa.BasicBlock) {
		if capped || !can[b] {
			return
		}
		if onPath[b] {
			loop = true
			return
		}
		onPath[b] = true
		cur = append(cur, b)
		defer func() {
			onPath[b] = false
			cur = cur[:len(cur)-1]
		}()
		if isEnd(b) {
			if len(paths) >= limit {
				capped = true
				return
			}
			paths = append(paths, append([]*ssa.BasicBlock(nil), cur...))
			return
		}
		for i, s := range b.Succs {
			if i == 1 && b.Succs[0] == s {
				continue
			}
			walk(s)
		}
	}
	walk(fn.Blocks[0])
	return
}

type c10edge struct {
	cond ssa.Value
	pol  bool
}

// c10pc is the evaluation context of one path: φ-nodes resolved to the value
// of the edge taken, branch conditions of the path available as facts.
type c10pc struct {
	lp     *linProver
	cx     *linCtx
	blocks []*ssa.BasicBlock
	edges  []c10edge
	contra bool // one boolean value is taken both ways along the path
}

// c10trackable: every write to the local happens by a Store in its own
// function (closures capturing it only read it, its address goes nowhere else).
func c10trackable(al *ssa.Alloc) bool {
	var readOnly func(refs *[]ssa.Instruction, self ssa.Value, depth int) bool
	readOnly = func(refs *[]ssa.Instruction, self ssa.Value, depth int) bool {
		if refs == nil || depth > 3 {
			return false
		}
		for _, r := range *refs {
			switch x := r.(type) {
			case *ssa.UnOp:
				if x.Op != token.MUL {
					return false
				}
			case *ssa.DebugRef:
			case *ssa.Store:
				if depth > 0 || x.Addr != self {
					return false // a closure writes it, or the address itself is stored
				}
			case *ssa.MakeClosure:
				fn, ok := x.Fn.(*ssa.Function)
				if !ok {
					return false
				}
				for i, b := range x.Bindings {
					if b == self {
						if i >= len(fn.FreeVars) || !readOnly(fn.FreeVars[i].Referrers(), fn.FreeVars[i], depth+1) {
							return false
						}
					}
				}
			default:
				return false
			}
		}
		return true
	}
	return readOnly(al.Referrers(), al, 0)
}

func c10mkpc(lp *linProver, blocks []*ssa.BasicBlock, at ssa.Instruction) *c10pc {
	return c10mkpcInto(lp, &linCtx{at: at, subst: map[ssa.Value]ssa.Value{}}, blocks)
}

// c10mkpcInto adds the φ bindings, memory bindings and branch facts of a path
// to an existing context (used for the handshake function itself and for the
// paths of a pure helper evaluated at a call site).
func c10mkpcInto(lp *linProver, cx *linCtx, blocks []*ssa.BasicBlock) *c10pc {
	pc := &c10pc{lp: lp, blocks: blocks}
	pc.cx = cx
	bools := map[ssa.Value]bool{}
	for i := 1; i < len(blocks); i++ {
		b, prev := blocks[i], blocks[i-1]
		idx := -1
		for j, pb := range b.Preds {
			if pb == prev {
				idx = j
				break
			}
		}
		if idx < 0 {
			continue
		}
		for _, in := range b.Instrs {
			ph, ok := in.(*ssa.Phi)
			if !ok {
				break
			}
			cx.subst[ph] = ph.Edges[idx]
		}
	}
	// locals that live in memory (captured by a closure that only reads them):
	// a load sees the last store executed on the path
	mem := map[*ssa.Alloc]ssa.Value{}
	for _, b := range blocks {
		for _, in := range b.Instrs {
			switch x := in.(type) {
			case *ssa.Store:
				if al, ok := x.Addr.(*ssa.Alloc); ok && c10trackable(al) {
					mem[al] = x.Val
				}
			case *ssa.UnOp:
				if al, ok := x.X.(*ssa.Alloc); ok && x.Op == token.MUL {
					if v, ok := mem[al]; ok && singleStore(al) == nil {
						cx.subst[x] = v
					}
				}
			}
		}
	}
	for i := 0; i+1 < len(blocks); i++ {
		b, nx := blocks[i], blocks[i+1]
		if len(b.Succs) != 2 || b.Succs[0] == b.Succs[1] {
			continue
		}
		j := 0
		if b.Succs[1] == nx {
			j = 1
		}
		if cond, pol, ok := edgeFact(b, j); ok {
			// a condition that is itself a φ (`a && b` used as a value, e.g. a switch
			// case) is resolved along the path
			for i := 0; i < 4; i++ {
				cond, pol = stripNot(pc.eval(cond), pol)
			}
			if k := constOf(cond); k != nil && k.Value != nil && k.Value.Kind() == constant.Bool {
				if constant.BoolVal(k.Value) != pol {
					pc.contra = true
				}
				continue
			}
			pc.edges = append(pc.edges, c10edge{cond, pol})
			cx.extra = append(cx.extra, lp.condFacts(cond, pol, cx)...)
			// the same boolean (same SSA value, or two loads of one location with no
			// store in between) cannot be both true and false on one path
			nc, np := c10norm(cond, pol)
			nc = lp.canon(pc.eval(nc))
			if prev, seen := bools[nc]; seen && prev != np {
				pc.contra = true
			}
			bools[nc] = np
		}
	}
	return pc
}

// instrs lists the instructions executed along the path (up to `until`, which
// is excluded, when it lies in the last block).
func (pc *c10pc) instrs(until ssa.Instruction) []ssa.Instruction {
	var out []ssa.Instruction
	for _, b := range pc.blocks {
		for _, in := range b.Instrs {
			if in == until {
				return out
			}
			out = append(out, in)
		}
	}
	return out
}

func (pc *c10pc) lin(v ssa.Value) lin { return pc.lp.lin(v, pc.cx) }

// eval resolves φ-nodes of the path and value-preserving wrappers.
func (pc *c10pc) eval(v ssa.Value) ssa.Value {
	for i := 0; i < 32; i++ {
		v = resolve(v)
		if s, ok := pc.cx.subst[v]; ok {
			v = s
			continue
		}
		return v
	}
	return v
}

type c10goal struct{ L, R lin }

func c10cloneCx(cx *linCtx) *linCtx {
	o := &linCtx{at: cx.at, depth: cx.depth, subst: map[ssa.Value]ssa.Value{}}
	for k, v := range cx.subst {
		o.subst[k] = v
	}
	o.extra = append(o.extra, cx.extra...)
	return o
}

// c10pure: a loop-free repository function over integers/booleans without
// side effects (no stores, no calls except builtins) and one integer result:
// it can be evaluated path by path like a generalised min().
var c10pureMemo = map[*ssa.Function]bool{}

func c10pure(p *Prog, f *ssa.Function) bool {
	if v, ok := c10pureMemo[f]; ok {
		return v
	}
	ok := f != nil && len(f.Blocks) > 0 && p.IsRepoFn(f) && f.Signature.Results().Len() == 1 && isIntType(f.Signature.Results().At(0).Type()) && len(f.FreeVars) == 0
	if ok {
		for _, pr := range f.Params {
			b, isB := pr.Type().Underlying().(*types.Basic)
			if !isB || b.Info()&(types.IsInteger|types.IsBoolean) == 0 {
				ok = false
			}
		}
	}
	if ok {
		allInstrs(f, func(in ssa.Instruction) {
			switch x := in.(type) {
			case *ssa.BinOp, *ssa.UnOp, *ssa.Phi, *ssa.If, *ssa.Jump, *ssa.Return, *ssa.Convert, *ssa.ChangeType, *ssa.DebugRef:
				if u, isU := x.(*ssa.UnOp); isU && u.Op == token.MUL {
					ok = false // memory read
				}
			case *ssa.Call:
				if _, isB := x.Call.Value.(*ssa.Builtin); !isB || !(isBuiltinCall(x, "min") || isBuiltinCall(x, "max")) {
					ok = false
				}
			default:
				ok = false
			}
		})
	}
	if ok {
		if paths, loop, capped := c10paths(f, nil, 64); loop || capped || len(paths) == 0 {
			ok = false
		}
	}
	c10pureMemo[f] = ok
	return ok
}

// c10splittable finds, among the atoms of the goals and of the path facts, a
// value that is evaluated by cases: a two-argument min/max builtin or a call of
// a pure helper.
func c10splittable(lp *linProver, goals []c10goal, facts []linFact) *ssa.Call {
	var found []*ssa.Call
	scan := func(l lin) {
		for a := range l.c {
			call, ok := a.(*ssa.Call)
			if !ok {
				continue
			}
			if len(call.Call.Args) == 2 && (isBuiltinCall(call, "min") || isBuiltinCall(call, "max")) {
				found = append(found, call)
			} else if f := staticCallee(call); f != nil && c10pure(lp.p, f) {
				found = append(found, call)
			}
		}
	}
	for _, g := range goals {
		scan(g.L.sub(g.R))
	}
	for _, f := range facts {
		scan(f.e)
	}
	if len(found) == 0 {
		return nil
	}
	sort.Slice(found, func(i, j int) bool { return found[i].Name() < found[j].Name() })
	return found[0]
}

// c10contradiction: the facts of the context refute each other (provably).
func c10contradiction(lp *linProver, cx *linCtx) bool {
	for _, f := range cx.extra {
		if f.e.isConst() {
			if f.e.k > 0 {
				return true
			}
			continue
		}
		if lp.proveGoal(linConst(1).sub(f.e), cx, 2) {
			return true
		}
	}
	return false
}

// c10cases returns the evaluation cases of a splittable call: each case is a
// context extended by the case's facts in which the call is replaced by a value.
func c10cases(lp *linProver, cx *linCtx, call *ssa.Call) ([]*linCtx, bool) {
	var out []*linCtx
	finish := func(cx2 *linCtx, nOld int) {
		// facts recorded before the split mention the call: rewrite them
		for i := 0; i < nOld; i++ {
			cx2.extra[i].e = lp.resubst(cx2.extra[i].e, cx2)
		}
		out = append(out, cx2)
	}
	if isBuiltinCall(call, "min") || isBuiltinCall(call, "max") {
		isMin := isBuiltinCall(call, "min")
		for k := 0; k < 2; k++ {
			pick, other := call.Call.Args[k], call.Call.Args[1-k]
			cx2 := c10cloneCx(cx)
			n := len(cx2.extra)
			cx2.subst[call] = pick
			lpick, lother := lp.lin(pick, cx2), lp.lin(other, cx2)
			if isMin {
				cx2.extra = append(cx2.extra, linFact{lpick.sub(lother), "min case"})
			} else {
				cx2.extra = append(cx2.extra, linFact{lother.sub(lpick), "max case"})
			}
			finish(cx2, n)
		}
		return out, true
	}
	f := staticCallee(call)
	if f == nil || !c10pure(lp.p, f) || len(call.Call.Args) != len(f.Params) {
		return nil, false
	}
	// one evaluation of f at a time: its parameters are bound to this call's arguments
	for _, pr := range f.Params {
		if _, busy := cx.subst[pr]; busy {
			return nil, false
		}
	}
	paths, _, _ := c10paths(f, nil, 64)
	for _, blocks := range paths {
		last := blocks[len(blocks)-1]
		ret := last.Instrs[len(last.Instrs)-1].(*ssa.Return)
		cx2 := c10cloneCx(cx)
		n := len(cx2.extra)
		for i, pr := range f.Params {
			cx2.subst[pr] = call.Call.Args[i]
		}
		sub := c10mkpcInto(lp, cx2, blocks)
		if sub.contra {
			continue
		}
		cx2.subst[call] = ret.Results[0]
		finish(cx2, n)
	}
	return out, true
}

// c10proveAny proves the disjunction of the goals (each L <= R) under the path
// context; min/max builtins and pure helper calls (in the goals or in the path
// facts) are evaluated by cases: min(a,b) is a when a <= b, else b; a helper
// call is its result along each of its paths.  A different disjunct may be
// chosen per case and a case whose facts are contradictory is vacuous.
func c10proveAny(lp *linProver, cx *linCtx, goals []c10goal, depth int) bool {
	for _, g := range goals {
		if lp.proveGoal(g.L.sub(g.R), cx, 2) {
			return true
		}
	}
	if depth >= 3 {
		return false
	}
	sp := c10splittable(lp, goals, cx.extra)
	if sp == nil {
		return false
	}
	cases, ok := c10cases(lp, cx, sp)
	if !ok {
		return false
	}
	for _, cx2 := range cases {
		if c10contradiction(lp, cx2) {
			continue
		}
		var g2 []c10goal
		for _, g := range goals {
			g2 = append(g2, c10goal{lp.resubst(g.L, cx2), lp.resubst(g.R, cx2)})
		}
		if !c10proveAny(lp, cx2, g2, depth+1) {
			return false
		}
	}
	return true
}

func (pc *c10pc) any(goals ...c10goal) bool { return c10proveAny(pc.lp, pc.cx, goals, 0) }
func (pc *c10pc) le(L, R lin) bool          { return pc.any(c10goal{L, R}) }
func (pc *c10pc) eq(L, R lin) bool          { return pc.le(L, R) && pc.le(R, L) }

// crosses: the path takes an edge accepted by pred (conditions normalised).
func (pc *c10pc) crosses(pred EdgePred) bool {
	for _, e := range pc.edges {
		c, pol := c10norm(e.cond, e.pol)
		if pred(c, pol) {
			return true
		}
	}
	return false
}

// infeasible: the branch conditions of the path contradict each other (some
// condition's negation follows from the others).  Only provable contradictions
// count, so skipping such a path is sound.
func (pc *c10pc) infeasible() bool { return pc.contra || c10contradiction(pc.lp, pc.cx) }

// describe names the path by the source lines of its branch decisions.
func (pc *c10pc) describe(p *Prog) string {
	var parts []string
	for i := 0; i+1 < len(pc.blocks); i++ {
		b, nx := pc.blocks[i], pc.blocks[i+1]
		if len(b.Succs) != 2 || b.Succs[0] == b.Succs[1] {
			continue
		}
		iff := b.Instrs[len(b.Instrs)-1]
		pos := "-"
		if v, ok := iff.(*ssa.If).Cond.(ssa.Instruction); ok {
			pos = p.InstrPos(v)
		}
		if i := strings.LastIndex(pos, ":"); i >= 0 {
			pos = pos[i+1:]
		}
		if b.Succs[0] == nx {
			parts = append(parts, pos+"=T")
		} else {
			parts = append(parts, pos+"=F")
		}
	}
	return "branches[line=outcome] " + strings.Join(parts, " ")
}

// ---------------------------------------------------------------------------
// one side of the handshake

type c10leaf int

const (
	c10opaque   c10leaf = iota // a definite value this rule attaches no meaning to
	c10peerRx                  // the peer's declared receive limit (decoded header)
	c10ownTx                   // own configured send limit
	c10auto                    // server: IgnoreClientBandwidth, client: decoded RxAuto
	c10const                   // constant
	c10uninterp                // result of a repository helper / multi-store local: not interpreted
)

const (
	c10evBrutal = iota
	c10evConfigured
	c10evVia
)

type c10event struct {
	kind   int
	call   ssa.CallInstruction
	arg    ssa.Value // Brutal: the rate
	callee *ssa.Function
}

type c10summary struct {
	oneCC         bool
	bad           string // why oneCC failed
	undecided     string
	allConfigured bool
	brutalParam   int // every path is Brutal(parameter k)
	faithful      map[int]bool
	paths         int
}

type c10side struct {
	c    *Check
	p    *Prog
	name string // "server" | "client"
	pkg  string
	top  *ssa.Function

	useBrutal, useConfigured *ssa.Function
	decode                   *ssa.Function
	peerRxField              *types.Var
	ownTxField               *types.Var
	autoField                *types.Var
	autoFromDecode           bool

	fns      []*ssa.Function
	callers  map[*ssa.Function][]*ssa.Call
	escaped  map[*ssa.Function]bool
	lps      map[*ssa.Function]*linProver
	ccFns    map[*ssa.Function]bool // transitively contain a controller installation
	summ     map[*ssa.Function]*c10summary
	busy     map[*ssa.Function]bool
	reportFn map[*ssa.Function]int // helper whose parameter k is handed to the report sink
	isReport func(in ssa.Instruction) (ssa.Value, bool)
	success  func(pc *c10pc, ret *ssa.Return) bool
}

func (s *c10side) lp(fn *ssa.Function) *linProver {
	if l, ok := s.lps[fn]; ok {
		return l
	}
	l := newLinProver(s.p, fn)
	s.lps[fn] = l
	return l
}

func (s *c10side) index() {
	s.callers = map[*ssa.Function][]*ssa.Call{}
	s.escaped = map[*ssa.Function]bool{}
	s.lps = map[*ssa.Function]*linProver{}
	s.summ = map[*ssa.Function]*c10summary{}
	s.busy = map[*ssa.Function]bool{}
	s.ccFns = map[*ssa.Function]bool{}
	s.reportFn = map[*ssa.Function]int{}
	for _, fn := range s.p.RepoFns {
		if pk := fnPkg(fn); pk == nil || pk.Pkg.Path() != s.pkg {
			continue
		}
		s.fns = append(s.fns, fn)
	}
	for _, fn := range s.fns {
		allInstrs(fn, func(in ssa.Instruction) {
			if ci, ok := in.(ssa.CallInstruction); ok {
				if f := staticCallee(ci); f != nil {
					if call, isCall := in.(*ssa.Call); isCall {
						s.callers[f] = append(s.callers[f], call)
					} else {
						s.escaped[f] = true
					}
				}
			}
			for _, op := range in.Operands(nil) {
				if f, ok := (*op).(*ssa.Function); ok {
					if ci, isCall := in.(ssa.CallInstruction); isCall && ci.Common().Value == ssa.Value(f) {
						continue
					}
					s.escaped[f] = true
				}
			}
		})
	}
}

// markCC finds the functions that (transitively, through static calls inside the
// package) install a controller; callers of the handshake function itself are
// not helpers of the handshake.
func (s *c10side) markCC() {
	for changed := true; changed; {
		changed = false
		for _, fn := range s.fns {
			if s.ccFns[fn] {
				continue
			}
			hit := false
			allInstrs(fn, func(in ssa.Instruction) {
				if ci, ok := in.(*ssa.Call); ok {
					if f := staticCallee(ci); f != nil && (f == s.useBrutal || f == s.useConfigured || (s.ccFns[f] && f != s.top)) {
						hit = true
					}
				}
			})
			if hit {
				s.ccFns[fn] = true
				changed = true
			}
		}
	}
}

// structRootIsDecode: the struct a field is read from is the decoder's result.
func (s *c10side) rootIsDecode(root ssa.Value) bool { return s.c10rootIsDecodeD(root, 0) }

// c10rootIsDecodeD also follows the decoded struct into an extracted helper: a
// parameter (struct by value, possibly spilled to a local, or a pointer to the
// local holding the result) of a non-escaping helper is the decoder's result
// when every call site passes the decoder's result.
func (s *c10side) c10rootIsDecodeD(root ssa.Value, depth int) bool {
	if depth > 3 {
		return false
	}
	root = resolve(root)
	switch r := root.(type) {
	case *ssa.Call:
		return staticCallee(r) == s.decode
	case *ssa.Extract:
		if call, ok := r.Tuple.(*ssa.Call); ok {
			return staticCallee(call) == s.decode
		}
	case *ssa.Alloc:
		if v := singleStore(r); v != nil {
			return s.c10rootIsDecodeD(v, depth+1)
		}
	case *ssa.UnOp:
		if r.Op == token.MUL {
			return s.c10rootIsDecodeD(r.X, depth+1)
		}
	case *ssa.Parameter:
		fn := r.Parent()
		if fn == nil || fn == s.top || s.escaped[fn] || len(s.callers[fn]) == 0 {
			return false
		}
		idx := -1
		for i, pr := range fn.Params {
			if pr == r {
				idx = i
			}
		}
		if idx < 0 {
			return false
		}
		for _, call := range s.callers[fn] {
			if idx >= len(call.Call.Args) || !s.c10rootIsDecodeD(call.Call.Args[idx], depth+1) {
				return false
			}
		}
		return true
	}
	return false
}

func c10lastField(v ssa.Value) (*types.Var, ssa.Value, bool) {
	v = resolve(v)
	switch x := v.(type) {
	case *ssa.UnOp:
		if x.Op != token.MUL {
			return nil, nil, false
		}
		if _, ok := x.X.(*ssa.FieldAddr); !ok {
			return nil, nil, false
		}
	case *ssa.Field:
	default:
		return nil, nil, false
	}
	ap := accessPath(v)
	if len(ap.Fields) == 0 {
		return nil, nil, false
	}
	return ap.Fields[len(ap.Fields)-1], ap.Root, true
}

// kindOf classifies a (φ-free) value.
func (s *c10side) kindOf(v ssa.Value, depth int) c10leaf {
	v = resolve(v)
	switch x := v.(type) {
	case *ssa.Const:
		return c10const
	case *ssa.Parameter:
		fn := x.Parent()
		if fn == s.top || depth > 2 || s.escaped[fn] || len(s.callers[fn]) == 0 {
			return c10opaque
		}
		idx := -1
		for i, pr := range fn.Params {
			if pr == x {
				idx = i
			}
		}
		k := c10leaf(-1)
		for _, call := range s.callers[fn] {
			if idx < 0 || idx >= len(call.Call.Args) {
				return c10opaque
			}
			ck := s.kindOf(call.Call.Args[idx], depth+1)
			if k >= 0 && ck != k {
				return c10opaque
			}
			k = ck
		}
		if k == c10peerRx || k == c10ownTx || k == c10auto {
			return k
		}
		return c10opaque
	case *ssa.Phi:
		return c10uninterp
	case *ssa.Call:
		if _, isB := x.Call.Value.(*ssa.Builtin); isB {
			return c10opaque
		}
		if f := staticCallee(x); f != nil && c10pure(s.p, f) {
			for _, arg := range x.Call.Args {
				if s.kindOf(arg, depth+1) == c10uninterp {
					return c10uninterp
				}
			}
			return c10opaque // evaluated by cases (c10cases)
		}
		if f := staticCallee(x); f != nil && s.p.IsRepoFn(f) && len(f.Blocks) > 0 {
			return c10uninterp
		}
		if x.Call.IsInvoke() || staticCallee(x) == nil {
			return c10uninterp
		}
		return c10opaque
	case *ssa.Extract:
		return s.kindOf(x.Tuple, depth)
	case *ssa.UnOp:
		if x.Op == token.MUL {
			if _, isAlloc := x.X.(*ssa.Alloc); isAlloc {
				return c10uninterp // local with several stores (captured / address taken)
			}
			if _, isFV := x.X.(*ssa.FreeVar); isFV {
				return c10uninterp
			}
		}
	}
	if f, root, ok := c10lastField(v); ok {
		switch {
		case f == s.peerRxField && s.rootIsDecode(root):
			return c10peerRx
		case f == s.ownTxField:
			return c10ownTx
		case f == s.autoField && (!s.autoFromDecode || s.rootIsDecode(root)):
			return c10auto
		}
	}
	return c10opaque
}

// findLeaf returns a value of the given kind available in fn.
func (s *c10side) findLeaf(fn *ssa.Function, k c10leaf) ssa.Value {
	for _, pr := range fn.Params {
		if s.kindOf(pr, 0) == k {
			return pr
		}
	}
	var found ssa.Value
	allInstrs(fn, func(in ssa.Instruction) {
		if found != nil {
			return
		}
		if v, ok := in.(ssa.Value); ok {
			switch v.(type) {
			case *ssa.UnOp, *ssa.Field:
				if s.kindOf(v, 0) == k {
					found = v
				}
			}
		}
	})
	return found
}

// c10desc names a value by its field path (or parameter name) for messages.
func c10desc(v ssa.Value) string {
	if v == nil {
		return "<none>"
	}
	if pr, ok := resolve(v).(*ssa.Parameter); ok {
		return "parameter " + pr.Name()
	}
	if f, root, ok := c10lastField(v); ok {
		ap := accessPath(v)
		if n := namedOf(root.Type()); n != nil && len(ap.Fields) == 1 {
			return n.Obj().Name() + "." + f.Name()
		}
		return ap.FieldNames()
	}
	return v.Name()
}

// uninterpreted: the linear form mentions a value the rule cannot interpret.
func (s *c10side) uninterpreted(l lin) (string, bool) {
	for a := range l.c {
		if _, ok := a.(*lenMarker); ok {
			continue
		}
		if call, ok := a.(*ssa.Call); ok && (isBuiltinCall(call, "min") || isBuiltinCall(call, "max")) {
			for _, arg := range call.Call.Args {
				if s.kindOf(arg, 0) == c10uninterp {
					return arg.Name() + " = " + arg.String(), true
				}
			}
			continue
		}
		if s.kindOf(a, 0) == c10uninterp {
			return a.Name() + " = " + a.String(), true
		}
	}
	return "", false
}

// ccEvents lists the controller installations executed along a path.
func (s *c10side) ccEvents(pc *c10pc) []c10event {
	var out []c10event
	for _, in := range pc.instrs(nil) {
		ci, ok := in.(ssa.CallInstruction)
		if !ok {
			continue
		}
		f := staticCallee(ci)
		if f == nil {
			continue
		}
		switch {
		case f == s.useBrutal:
			out = append(out, c10event{kind: c10evBrutal, call: ci, arg: c10rateArg(ci)})
		case f == s.useConfigured:
			out = append(out, c10event{kind: c10evConfigured, call: ci})
		case s.ccFns[f]:
			out = append(out, c10event{kind: c10evVia, call: ci, callee: f})
		}
	}
	return out
}

// c10rateArg: the uint64 argument of a UseBrutal call.
func c10rateArg(ci ssa.CallInstruction) ssa.Value {
	for _, a := range ci.Common().Args {
		if c10isUint64(a.Type()) {
			return a
		}
	}
	return nil
}

// sinkOK: along the path, does `sink` carry the rate enforced by event ev?
// Returns ok, and a non-empty reason when the question cannot be interpreted.
func (s *c10side) sinkOK(pc *c10pc, sink ssa.Value, ev c10event) (bool, string) {
	L := pc.lin(sink)
	switch ev.kind {
	case c10evBrutal:
		if ev.arg == nil {
			return false, ""
		}
		R := pc.lin(ev.arg)
		if pc.eq(L, R) {
			return true, ""
		}
		if w, u := s.uninterpreted(L.sub(R)); u {
			return false, w
		}
		return false, ""
	case c10evConfigured:
		if pc.le(L, linConst(0)) {
			return true, ""
		}
		if w, u := s.uninterpreted(L); u {
			return false, w
		}
		return false, ""
	case c10evVia:
		sm := s.summary(ev.callee)
		if sm.undecided != "" {
			return false, sm.undecided
		}
		if sm.allConfigured {
			return s.sinkOK(pc, sink, c10event{kind: c10evConfigured})
		}
		if sm.brutalParam >= 0 && sm.brutalParam < len(ev.call.Common().Args) {
			return s.sinkOK(pc, sink, c10event{kind: c10evBrutal, arg: ev.call.Common().Args[sm.brutalParam]})
		}
		// the helper's own result
		v := pc.eval(sink)
		if v == ev.call.Value() && ev.call.Value() != nil && sm.faithful[0] && ev.callee.Signature.Results().Len() == 1 {
			return true, ""
		}
		if ex, ok := v.(*ssa.Extract); ok && ex.Tuple == ev.call.Value() && sm.faithful[ex.Index] {
			return true, ""
		}
		return false, ""
	}
	return false, ""
}

// summary of a helper that installs a controller: exactly one installation on
// every path, and which of its results / parameters carry the enforced rate.
func (s *c10side) summary(fn *ssa.Function) *c10summary {
	if sm, ok := s.summ[fn]; ok {
		return sm
	}
	sm := &c10summary{oneCC: true, allConfigured: true, brutalParam: -2, faithful: map[int]bool{}}
	if s.busy[fn] {
		sm.undecided = "recursive helper " + fnName(fn)
		return sm
	}
	s.busy[fn] = true
	defer delete(s.busy, fn)
	s.c.Saw(fnName(fn))
	paths, loop, capped := c10paths(fn, nil, 4000)
	if loop || capped {
		sm.undecided = "helper " + fnName(fn) + " has a loop or too many paths"
	}
	nres := fn.Signature.Results().Len()
	for i := 0; i < nres; i++ {
		if c10isUint64(fn.Signature.Results().At(i).Type()) {
			sm.faithful[i] = true
		}
	}
	lp := s.lp(fn)
	for _, blocks := range paths {
		last := blocks[len(blocks)-1]
		ret := last.Instrs[len(last.Instrs)-1].(*ssa.Return)
		pc := c10mkpc(lp, blocks, ret)
		if pc.infeasible() {
			continue
		}
		sm.paths++
		evs := s.ccEvents(pc)
		for _, ev := range evs {
			if ev.kind == c10evVia {
				sub := s.summary(ev.callee)
				if sub.undecided != "" && sm.undecided == "" {
					sm.undecided = sub.undecided
				}
				if !sub.oneCC {
					sm.oneCC = false
					sm.bad = sub.bad
				}
			}
		}
		if len(evs) != 1 {
			sm.oneCC = false
			sm.bad = fmt.Sprintf("%s: a path installs %d controllers (%s)", fnName(fn), len(evs), pc.describe(s.p))
			continue
		}
		ev := evs[0]
		// kind bookkeeping
		cfg := ev.kind == c10evConfigured || (ev.kind == c10evVia && s.summary(ev.callee).allConfigured)
		if !cfg {
			sm.allConfigured = false
		}
		bp := -1
		switch ev.kind {
		case c10evBrutal:
			if pr, ok := pc.eval(ev.arg).(*ssa.Parameter); ok && pr.Parent() == fn {
				for i, q := range fn.Params {
					if q == pr {
						bp = i
					}
				}
			}
		case c10evVia:
			if k := s.summary(ev.callee).brutalParam; k >= 0 && k < len(ev.call.Common().Args) {
				if pr, ok := pc.eval(ev.call.Common().Args[k]).(*ssa.Parameter); ok && pr.Parent() == fn {
					for i, q := range fn.Params {
						if q == pr {
							bp = i
						}
					}
				}
			}
		}
		if sm.brutalParam == -2 {
			sm.brutalParam = bp
		} else if sm.brutalParam != bp {
			sm.brutalParam = -1
		}
		res := retResults(ret)
		for i := range sm.faithful {
			if !sm.faithful[i] {
				continue
			}
			if i >= len(res) {
				sm.faithful[i] = false
				continue
			}
			ok, why := s.sinkOK(pc, res[i], ev)
			if !ok {
				sm.faithful[i] = false
				_ = why
			}
		}
	}
	if sm.brutalParam == -2 {
		sm.brutalParam = -1
	}
	if sm.paths == 0 {
		sm.oneCC = false
		sm.bad = fnName(fn) + " has no returning path"
	}
	s.summ[fn] = sm
	return sm
}

// guardedLift: every feasible path to site crosses an edge accepted by pred, in
// its own function or at every call site of that function.
func (s *c10side) guardedLift(site ssa.Instruction, pred EdgePred, depth int) bool {
	fn := site.Parent()
	paths, loop, capped := c10paths(fn, site.Block(), 4000)
	if loop || capped {
		np := func(c ssa.Value, pol bool) bool {
			c, pol = c10norm(c, pol)
			return pred(c, pol)
		}
		if guardedBy(site, np) {
			return true
		}
	} else {
		all := true
		lp := s.lp(fn)
		for _, blocks := range paths {
			pc := c10mkpc(lp, blocks, site)
			if pc.infeasible() {
				continue
			}
			if !pc.crosses(pred) {
				all = false
				break
			}
		}
		if all {
			return true
		}
	}
	if fn == s.top || depth > 3 || s.escaped[fn] || len(s.callers[fn]) == 0 {
		return false
	}
	for _, cs := range s.callers[fn] {
		if !s.guardedLift(cs, pred, depth+1) {
			return false
		}
	}
	return true
}

// A helper that does nothing but install Brutal with one of its parameters
// (or nothing but install the configured controller) is transparent: its call
// sites are treated as the installation sites.
type c10site struct {
	call ssa.CallInstruction
	rate ssa.Value
}

func (s *c10side) liftable(fn *ssa.Function) bool {
	return fn != s.top && s.ccFns[fn] && !s.escaped[fn] && len(s.callers[fn]) > 0
}

func (s *c10side) brutalSites(fn *ssa.Function) []c10site {
	var out []c10site
	if s.liftable(fn) {
		if sm := s.summary(fn); sm.oneCC && sm.undecided == "" && sm.brutalParam >= 0 {
			return nil // checked at its call sites
		}
	}
	allInstrs(fn, func(in ssa.Instruction) {
		ci, ok := in.(ssa.CallInstruction)
		if !ok {
			return
		}
		f := staticCallee(ci)
		switch {
		case f == nil:
		case f == s.useBrutal:
			out = append(out, c10site{ci, c10rateArg(ci)})
		case s.liftable(f):
			if sm := s.summary(f); sm.oneCC && sm.undecided == "" && sm.brutalParam >= 0 && sm.brutalParam < len(ci.Common().Args) {
				out = append(out, c10site{ci, ci.Common().Args[sm.brutalParam]})
			}
		}
	})
	return out
}

func (s *c10side) configuredSites(fn *ssa.Function) []ssa.CallInstruction {
	var out []ssa.CallInstruction
	if s.liftable(fn) {
		if sm := s.summary(fn); sm.oneCC && sm.undecided == "" && sm.allConfigured {
			return nil // checked at its call sites
		}
	}
	allInstrs(fn, func(in ssa.Instruction) {
		ci, ok := in.(ssa.CallInstruction)
		if !ok {
			return
		}
		f := staticCallee(ci)
		switch {
		case f == nil:
		case f == s.useConfigured:
			out = append(out, ci)
		case s.liftable(f):
			if sm := s.summary(f); sm.oneCC && sm.undecided == "" && sm.allConfigured {
				out = append(out, ci)
			}
		}
	})
	return out
}

// ---------------------------------------------------------------------------
// R1 / R3 one-controller on the top-level handshake function

func (s *c10side) checkTop() {
	c, p := s.c, s.p
	r1 := "C10.R1 on every successful handshake path the rate reported to the application (" + map[string]string{"server": "EventLogger.Connect argument", "client": "HandshakeInfo.Tx"}[s.name] + ") equals the UseBrutal argument of that path, and is 0 when the configured controller is installed"
	const r3one = "C10.R3 every successful handshake path installs exactly one congestion controller (UseBrutal or UseConfigured)"
	c.Saw(fnName(s.top))
	paths, loop, capped := c10paths(s.top, nil, 20000)
	keyOne := "C10.R3:" + s.name + ":one-controller"
	keyB := "C10.R1:" + s.name + ":reported=enforced-brutal-rate"
	keyC := "C10.R1:" + s.name + ":reported=0-with-configured-controller"
	if loop || capped {
		why := "the handshake function contains a loop on the way to its returns"
		if capped {
			why = "more than 20000 paths"
		}
		c.Undecided(keyOne, r3one, p.Pos(s.top.Pos()), why)
		return
	}
	lp := s.lp(s.top)
	nSucc, nBrutal, nConf, nReports := 0, 0, 0, 0
	oneBad, bBad, cBad, undec := "", "", "", ""
	var oneBadPos, bBadPos, cBadPos string
	for _, blocks := range paths {
		last := blocks[len(blocks)-1]
		ret := last.Instrs[len(last.Instrs)-1].(*ssa.Return)
		pc := c10mkpc(lp, blocks, ret)
		if pc.infeasible() || !s.success(pc, ret) {
			continue
		}
		nSucc++
		evs := s.ccEvents(pc)
		for _, ev := range evs {
			if ev.kind == c10evVia {
				sub := s.summary(ev.callee)
				if sub.undecided != "" {
					undec = sub.undecided
				}
				if !sub.oneCC && oneBad == "" {
					oneBad, oneBadPos = sub.bad, p.InstrPos(ev.call)
				}
			}
		}
		if len(evs) != 1 {
			if oneBad == "" {
				oneBad = fmt.Sprintf("a successful path installs %d controllers: %s", len(evs), pc.describe(p))
				oneBadPos = p.InstrPos(ret)
				if len(evs) > 1 {
					oneBadPos = p.InstrPos(evs[1].call)
				}
			}
			continue
		}
		ev := evs[0]
		brutal := ev.kind == c10evBrutal
		if ev.kind == c10evVia {
			brutal = !s.summary(ev.callee).allConfigured
		}
		if brutal {
			nBrutal++
		} else {
			nConf++
		}
		// report sinks on the path
		var sinks []ssa.Value
		var sinkPos []string
		for _, in := range pc.instrs(nil) {
			if v, ok := s.isReport(in); ok {
				sinks = append(sinks, v)
				sinkPos = append(sinkPos, p.InstrPos(in))
			}
		}
		nReports += len(sinks)
		if len(sinks) == 0 && s.name == "client" {
			// the zero value is what the application sees
			if brutal && bBad == "" {
				bBad, bBadPos = "a path installs Brutal but never sets HandshakeInfo.Tx (the application is told 0 = bandwidth detection): "+pc.describe(p), p.InstrPos(ev.call)
			}
			continue
		}
		for i, sink := range sinks {
			ok, why := s.sinkOK(pc, sink, ev)
			if ok {
				continue
			}
			if why != "" {
				undec = "reported value depends on " + why
				continue
			}
			if brutal {
				if bBad == "" {
					bBad = fmt.Sprintf("the reported rate is not the rate given to UseBrutal at %s on this path: %s", p.InstrPos(ev.call), pc.describe(p))
					bBadPos = sinkPos[i]
				}
			} else if cBad == "" {
				cBad = fmt.Sprintf("a non-zero rate may be reported although the configured controller is installed at %s: %s", p.InstrPos(ev.call), pc.describe(p))
				cBadPos = sinkPos[i]
			}
		}
	}
	if undec != "" {
		c.Undecided(keyB, r1, p.Pos(s.top.Pos()), undec)
		return
	}
	top := p.Pos(s.top.Pos())
	if oneBadPos == "" {
		oneBadPos = top
	}
	if bBadPos == "" {
		bBadPos = top
	}
	if cBadPos == "" {
		cBadPos = top
	}
	c.Req(oneBad == "", keyOne, r3one, oneBadPos, oneBad)
	c.Req(bBad == "", keyB, r1, bBadPos, bBad)
	c.Req(cBad == "", keyC, r1, cBadPos, cBad)
	note := fmt.Sprintf("C10 %s %s: %d feasible successful paths (%d install Brutal, %d the configured controller), %d reported values compared", s.name, fnName(s.top), nSucc, nBrutal, nConf, nReports)
	dup := false
	for _, n := range c.Notes {
		if n == note {
			dup = true
		}
	}
	if !dup {
		c.Notes = append(c.Notes, note)
	}
	c.Floor("C10.R3:"+s.name+":successful-paths", nSucc, 1)
	if oneBad == "" {
		c.Floor("C10.R1:"+s.name+":controller-paths", nBrutal+nConf, 2)
		c.Floor("C10.R1:"+s.name+":report-sites-on-paths", nReports, 1)
	}
}

// ---------------------------------------------------------------------------
// R2 / R3 at the UseBrutal call sites

func (s *c10side) checkBrutalSites() int {
	c, p := s.c, s.p
	r2peer := "C10.R2 at UseBrutal, on every path: rate <= the peer's declared Rx" + map[string]string{"server": "", "client": " (or the server declared 0 = unlimited)"}[s.name]
	r2own := "C10.R2 at UseBrutal, on every path: rate <= own MaxTx" + map[string]string{"server": " (or MaxTx is 0 = unlimited)", "client": ""}[s.name]
	const r2exact = "C10.R2 at UseBrutal, on every path: the rate is the minimum itself (equals the peer's Rx or own MaxTx), not a smaller value"
	const r3pos = "C10.R3 UseBrutal is only called with rate >= 1 (0 means 'unknown': the configured controller must be used)"
	r3auto := "C10.R3 UseBrutal is never reached when " + map[string]string{"server": "IgnoreClientBandwidth is set", "client": "the server answered RxAuto"}[s.name]
	n := 0
	perFn := map[*ssa.Function]int{}
	for _, fn := range s.fns {
		for _, bs := range s.brutalSites(fn) {
			site := bs.call
			n++
			perFn[fn]++
			c.Saw(fnName(fn))
			key := fnName(fn) + "→UseBrutal"
			if perFn[fn] > 1 {
				key += fmt.Sprintf("#%d", perFn[fn])
			}
			pos := p.InstrPos(site)
			if _, isCall := site.(*ssa.Call); !isCall {
				c.Bad("C10.R2:"+key+":le-peer-rx", r2peer, pos, "UseBrutal started with go/defer: not ordered with the handshake")
				continue
			}
			rate := bs.rate
			if rate == nil {
				c.Unres("uint64 rate argument of UseBrutal")
				continue
			}
			// never on the auto edge
			autoOff := func(cond ssa.Value, pol bool) bool { return !pol && s.kindOf(cond, 0) == c10auto }
			c.Req(s.guardedLift(site, autoOff, 0), "C10.R3:"+key+":not-when-auto", r3auto, pos,
				"a path reaches UseBrutal without crossing the false-edge of "+s.autoField.Name()+" (a fixed rate is installed although bandwidth detection was requested)")

			paths, loop, capped := c10paths(fn, site.Block(), 4000)
			if loop || capped {
				c.Undecided("C10.R2:"+key+":le-peer-rx", r2peer, pos, "loop or too many paths before the call")
				continue
			}
			peer := s.findLeaf(fn, c10peerRx)
			own := s.findLeaf(fn, c10ownTx)
			lp := s.lp(fn)
			type res struct {
				bad, undec, where string
			}
			var rPeer, rOwn, rExact, rPos res
			fail := func(r *res, pc *c10pc, l lin, what string) {
				if w, u := s.uninterpreted(l); u {
					if r.undec == "" {
						r.undec = "the rate is computed from " + w + ", which this rule does not interpret"
					}
					return
				}
				if r.bad == "" {
					r.bad = what + " on the path " + pc.describe(p)
				}
			}
			for _, blocks := range paths {
				pc := c10mkpc(lp, blocks, site)
				if pc.infeasible() {
					continue
				}
				R := pc.lin(rate)
				// R3 positive
				if !pc.le(linConst(1), R) {
					fail(&rPos, pc, R, "rate may be 0 at UseBrutal")
				}
				if peer != nil {
					P := pc.lin(peer)
					goals := []c10goal{{R, P}}
					if s.name == "client" {
						goals = append(goals, c10goal{P, linConst(0)})
					}
					if !pc.any(goals...) {
						fail(&rPeer, pc, R, "rate not bounded by the peer's Rx ("+c10desc(peer)+")")
					}
				}
				if own != nil {
					O := pc.lin(own)
					goals := []c10goal{{R, O}}
					if s.name == "server" {
						goals = append(goals, c10goal{O, linConst(0)})
					}
					if !pc.any(goals...) {
						fail(&rOwn, pc, R, "rate not bounded by own MaxTx ("+c10desc(own)+")")
					}
				}
				if peer != nil && own != nil {
					if !pc.any(c10goal{pc.lin(peer), R}, c10goal{pc.lin(own), R}) {
						fail(&rExact, pc, R, "rate may be smaller than both limits")
					}
				}
			}
			emit := func(k, rule string, r res) {
				switch {
				case r.bad != "":
					c.Bad(k, rule, pos, r.bad)
				case r.undec != "":
					c.Undecided(k, rule, pos, r.undec)
				default:
					c.OK(k, rule, pos)
				}
			}
			if peer == nil {
				rPeer.bad = "the function installing Brutal never reads the peer's declared Rx (" + s.peerRxField.Name() + " of " + s.decode.Name() + "'s result)"
				rExact = res{}
			}
			if own == nil {
				rOwn.bad = "the function installing Brutal never reads its own BandwidthConfig." + s.ownTxField.Name()
			}
			emit("C10.R2:"+key+":le-peer-rx", r2peer, rPeer)
			emit("C10.R2:"+key+":le-own-tx", r2own, rOwn)
			if peer != nil && own != nil {
				emit("C10.R2:"+key+":exact-min", r2exact, rExact)
			}
			emit("C10.R3:"+key+":positive", r3pos, rPos)
		}
	}
	return n
}

// checkConfiguredSites: the configured controller replaces a fixed rate only
// when bandwidth detection was requested or no usable rate exists.
func (s *c10side) checkConfiguredSites() int {
	c, p := s.c, s.p
	rule := "C10.R3 UseConfigured is reached only on the " + map[string]string{
		"server": "IgnoreClientBandwidth edge or when the client declared Rx = 0 (a server MaxTx of 0 means unlimited, not 'use the configured controller')",
		"client": "RxAuto edge or when the client's own MaxTx is 0 (a server Rx of 0 means unlimited, not 'use the configured controller')"}[s.name]
	n := 0
	for _, fn := range s.fns {
		sites := s.configuredSites(fn)
		if len(sites) == 0 {
			continue
		}
		c.Saw(fnName(fn))
		key := "C10.R3:" + fnName(fn) + "→UseConfigured:only-when-auto-or-no-rate"
		var zero ssa.Value
		zeroName := ""
		if s.name == "server" {
			zero, zeroName = s.findLeaf(fn, c10peerRx), "the client's declared Rx"
		} else {
			zero, zeroName = s.findLeaf(fn, c10ownTx), "own MaxTx"
		}
		lp := s.lp(fn)
		bad, badPos, undec := "", "", ""
		for _, site := range sites {
			n++
			autoOn := func(cond ssa.Value, pol bool) bool { return pol && s.kindOf(cond, 0) == c10auto }
			if s.guardedLift(site, autoOn, 0) {
				continue
			}
			paths, loop, capped := c10paths(fn, site.Block(), 4000)
			if loop || capped {
				undec = "loop or too many paths before the call at " + p.InstrPos(site)
				continue
			}
			for _, blocks := range paths {
				pc := c10mkpc(lp, blocks, site)
				if pc.crosses(autoOn) || pc.infeasible() {
					continue
				}
				if zero == nil {
					if bad == "" {
						bad, badPos = "the configured controller is chosen in a function that never reads "+zeroName, p.InstrPos(site)
					}
					continue
				}
				Z := pc.lin(zero)
				if pc.le(Z, linConst(0)) {
					continue
				}
				if w, u := s.uninterpreted(Z); u {
					undec = "depends on " + w
					continue
				}
				if bad == "" {
					bad = "the configured controller replaces a fixed rate although " + zeroName + " may be non-zero: " + pc.describe(p)
					badPos = p.InstrPos(site)
				}
			}
		}
		switch {
		case bad != "":
			c.Bad(key, rule, badPos, bad)
		case undec != "":
			c.Undecided(key, rule, p.Pos(fn.Pos()), undec)
		default:
			c.OK(key, rule, p.InstrPos(sites[0]))
		}
	}
	return n
}

// ---------------------------------------------------------------------------
// R3: what each side declares to the other

// checkDeclared: every call of encoder `enc` in the package passes a struct
// whose fields hold the required config values.
func (s *c10side) checkDeclared(enc *ssa.Function, want map[*types.Var]*types.Var, what string, floor int) {
	c, p := s.c, s.p
	rule := "C10.R3 the " + what + " declares Rx = own BandwidthConfig.MaxRx" + map[string]string{"server": " and RxAuto = IgnoreClientBandwidth", "client": ""}[s.name]
	n := 0
	bad := map[*types.Var]string{}
	badPos := map[*types.Var]string{}
	undec := ""
	for _, fn := range s.fns {
		for _, site := range callsIn(fn, func(ci ssa.CallInstruction) bool { return staticCallee(ci) == enc }) {
			n++
			c.Saw(fnName(fn))
			var arg ssa.Value
			for _, a := range site.Common().Args {
				if _, isStruct := a.Type().Underlying().(*types.Struct); isStruct {
					arg = a
				}
			}
			if arg == nil {
				undec = "no struct argument at " + p.InstrPos(site)
				continue
			}
			fields, ok := c10litFields(arg)
			if !ok {
				undec = "the struct handed to " + enc.Name() + " at " + p.InstrPos(site) + " is not built field by field in a local"
				continue
			}
			for f, cfgField := range want {
				v, set := fields[f]
				good := false
				if set {
					if lf, _, ok := c10lastField(v); ok && lf == cfgField {
						good = true
					}
				}
				if !good && bad[f] == "" {
					got := "left at its zero value"
					if set {
						got = "set from " + v.String()
						if lf, _, ok := c10lastField(v); ok {
							got = "set from field " + lf.Name()
						}
					}
					bad[f] = fmt.Sprintf("%s.%s is %s, not from %s", namedOf(arg.Type()).Obj().Name(), f.Name(), got, cfgField.Name())
					badPos[f] = p.InstrPos(site)
				}
			}
		}
	}
	var fs []*types.Var
	for f := range want {
		fs = append(fs, f)
	}
	sort.Slice(fs, func(i, j int) bool { return fs[i].Name() < fs[j].Name() })
	for _, f := range fs {
		key := "C10.R3:" + s.name + ":declares:" + f.Name()
		if undec != "" && bad[f] == "" {
			c.Undecided(key, rule, "", undec)
			continue
		}
		pos := badPos[f]
		if pos == "" {
			pos = p.Pos(enc.Pos())
		}
		c.Req(bad[f] == "", key, rule, pos, bad[f])
	}
	c.Floor("C10.R3:"+s.name+":declares", n, floor)
}

// ---------------------------------------------------------------------------
// R4 header codecs

type c10codec struct {
	key       string // header name
	base      int64
	bits      int64 // decoder only
	auto      string
	hasAuto   bool
	autoOK    bool // the literal is tied to the RxAuto edge (enc) / sets RxAuto and is the only way to (dec)
	autoWhy   string
	pos       string
	undecided string
	bad       string // Rx does not travel unchanged through this codec function
}

// c10dependsOnField: v is computed from a load of field f.
func c10dependsOnField(v ssa.Value, f *types.Var) bool {
	for d := range deps(v, depOpts{throughCalls: true}) {
		if isLoadOfField(d, f) {
			return true
		}
	}
	return false
}

func c10headerCall(ci ssa.CallInstruction, method string) bool {
	return c10isCallTo(ci, "net/http", "Header", method)
}

// c10encoder analyses AuthXToHeader: which header carries Rx and how.
func c10encoder(p *Prog, enc *ssa.Function, fRx, fAuto *types.Var) c10codec {
	var out c10codec
	out.pos = p.Pos(enc.Pos())
	// every (value, incoming edge) pair written to a header with a constant name
	type src struct {
		v        ssa.Value
		from, to *ssa.BasicBlock
		key      string
	}
	var numeric, lits []src
	rxDependent := 0
	// header writes of the encoder: direct Set/Add calls, plus those a repository
	// helper performs with one of its parameters as the value (summarised at the call)
	type hdrWrite struct {
		keyV, val ssa.Value
		blk       *ssa.BasicBlock
	}
	var writes []hdrWrite
	isHdr := func(ci ssa.CallInstruction) bool { return c10headerCall(ci, "Set") || c10headerCall(ci, "Add") }
	for _, ci := range callsIn(enc, isHdr) {
		if args := ci.Common().Args; len(args) == 3 {
			writes = append(writes, hdrWrite{args[1], args[2], ci.Block()})
		}
	}
	for _, hc := range callsIn(enc, func(ci ssa.CallInstruction) bool {
		g := staticCallee(ci)
		return g != nil && fnPkg(g) != nil && isRepoPath(fnPkg(g).Pkg.Path()) && !isHdr(ci)
	}) {
		g := staticCallee(hc)
		for _, inner := range callsIn(g, isHdr) {
			ia := inner.Common().Args
			if len(ia) != 3 {
				continue
			}
			for j, prm := range g.Params {
				if resolve(ia[2]) == ssa.Value(prm) && j < len(hc.Common().Args) {
					writes = append(writes, hdrWrite{ia[1], hc.Common().Args[j], hc.Block()})
				}
			}
		}
	}
	for _, w := range writes {
		key, keyOK := constString(w.keyV)
		var srcs []src
		if ph, ok := w.val.(*ssa.Phi); ok {
			for i, e := range ph.Edges {
				srcs = append(srcs, src{resolve(e), ph.Block().Preds[i], ph.Block(), key})
			}
		} else {
			srcs = []src{{resolve(w.val), w.blk, nil, key}}
		}
		for _, sc := range srcs {
			if call, ok := sc.v.(*ssa.Call); ok && len(call.Call.Args) >= 1 && isLoadOfField(c10convOnly(call.Call.Args[0]), fRx) {
				if c10isCallTo(call, "strconv", "", "FormatUint") && len(call.Call.Args) == 2 {
					if !keyOK {
						out.undecided = enc.Name() + ": header name of the Rx write is not a constant"
						return out
					}
					numeric = append(numeric, sc)
					out.base, _ = constInt(call.Call.Args[1])
				} else {
					out.undecided = enc.Name() + ": Rx is formatted by " + call.Call.Value.Name() + ", not strconv.FormatUint"
					return out
				}
				continue
			}
			if _, isStr := constString(sc.v); isStr && keyOK {
				lits = append(lits, sc)
				continue
			}
			if c10dependsOnField(sc.v, fRx) {
				rxDependent++
				if call, ok := sc.v.(*ssa.Call); ok && c10isCallTo(call, "strconv", "", "FormatUint") {
					out.bad = enc.Name() + ": Rx is transformed before it is formatted into header " + key
				}
			}
		}
	}
	if out.bad != "" {
		return out
	}
	if len(numeric) == 0 && rxDependent == 0 {
		// the header write may have been moved into a repository helper that
		// receives the formatted value: not followed, hence undecided rather than wrong
		viaHelper := ""
		for _, ci := range callsIn(enc, func(ci ssa.CallInstruction) bool {
			g := staticCallee(ci)
			return g != nil && fnPkg(g) != nil && isRepoPath(fnPkg(g).Pkg.Path())
		}) {
			for _, a := range ci.Common().Args {
				if c10dependsOnField(a, fRx) {
					viaHelper = staticCallee(ci).Name()
				}
			}
		}
		if viaHelper != "" {
			out.undecided = enc.Name() + ": the Rx value is handed to helper " + viaHelper + "; header writes inside helpers are not followed"
			return out
		}
		out.bad = enc.Name() + ": Rx is never written to a header"
		return out
	}
	if len(numeric) != 1 {
		out.undecided = fmt.Sprintf("%s: %d header writes of FormatUint(Rx) found, want 1", enc.Name(), len(numeric))
		return out
	}
	out.key = numeric[0].key
	if fAuto == nil {
		return out
	}
	isAuto := func(want bool) EdgePred {
		return func(cond ssa.Value, pol bool) bool {
			cond, pol = c10norm(cond, pol)
			return pol == want && isLoadOfField(cond, fAuto)
		}
	}
	// the literal: the constant written to the same header
	canon := textproto.CanonicalMIMEHeaderKey
	var lit *src
	for i := range lits {
		if canon(lits[i].key) == canon(out.key) {
			if lit != nil {
				out.undecided = enc.Name() + ": several constants are written to header " + out.key
				return out
			}
			lit = &lits[i]
		}
	}
	if lit == nil {
		out.autoWhy = "no constant is written to header " + out.key + " for RxAuto"
		return out
	}
	out.hasAuto = true
	out.auto, _ = constString(lit.v)
	out.autoOK = srcGuarded(lit.from, lit.to, isAuto(true)) && srcGuarded(numeric[0].from, numeric[0].to, isAuto(false))
	if !out.autoOK {
		out.autoWhy = "the literal is not written exactly on the RxAuto edge / the number not exactly on the other edge"
	}
	return out
}

// c10decoder analyses AuthXFromHeader: where Rx (and RxAuto) come from.
func c10decoder(p *Prog, dec *ssa.Function, fRx, fAuto *types.Var) c10codec {
	var out c10codec
	out.pos = p.Pos(dec.Pos())
	var rxStores, autoStores []*ssa.Store
	for _, fr := range fieldRefs([]*ssa.Function{dec}, fRx) {
		if fr.Kind == "store" {
			rxStores = append(rxStores, fr.Instr.(*ssa.Store))
		}
	}
	if len(rxStores) == 0 {
		out.bad = dec.Name() + ": Rx is never set from the header"
		return out
	}
	if len(rxStores) != 1 {
		out.undecided = fmt.Sprintf("%s: %d stores to Rx, want 1", dec.Name(), len(rxStores))
		return out
	}
	st := rxStores[0]
	tup, idx := tupleSource(c10convOnly(st.Val))
	call, _ := tup.(*ssa.Call)
	if call == nil || idx != 0 || !c10isCallTo(call, "strconv", "", "ParseUint") || len(call.Call.Args) != 3 {
		for d := range deps(st.Val, depOpts{}) {
			if ex, ok := d.(*ssa.Extract); ok && ex.Index == 0 {
				if pc, ok := ex.Tuple.(*ssa.Call); ok && c10isCallTo(pc, "strconv", "", "ParseUint") {
					out.bad = dec.Name() + ": the parsed number is transformed before it is stored in Rx"
					return out
				}
			}
		}
		out.undecided = dec.Name() + ": Rx is not result #0 of strconv.ParseUint"
		return out
	}
	out.base, _ = constInt(call.Call.Args[1])
	out.bits, _ = constInt(call.Call.Args[2])
	src, _ := resolve(call.Call.Args[0]).(*ssa.Call)
	if src == nil || !c10headerCall(src, "Get") || len(src.Call.Args) != 2 {
		out.undecided = dec.Name() + ": the parsed string is not Header.Get(name)"
		return out
	}
	k, ok := constString(src.Call.Args[1])
	if !ok {
		out.undecided = dec.Name() + ": header name is not a constant"
		return out
	}
	out.key = k
	if fAuto == nil {
		return out
	}
	for _, fr := range fieldRefs([]*ssa.Function{dec}, fAuto) {
		if fr.Kind == "store" {
			autoStores = append(autoStores, fr.Instr.(*ssa.Store))
		}
	}
	if len(autoStores) == 0 {
		out.autoWhy = "RxAuto is never set by the decoder"
		return out
	}
	// the literal: the header string compared with a constant
	var lit string
	litOK := false
	isLit := func(want bool) EdgePred {
		return func(cond ssa.Value, pol bool) bool {
			b, ok := cond.(*ssa.BinOp)
			if !ok || (b.Op != token.EQL && b.Op != token.NEQ) {
				return false
			}
			var other ssa.Value
			switch {
			case resolve(b.X) == ssa.Value(src):
				other = b.Y
			case resolve(b.Y) == ssa.Value(src):
				other = b.X
			default:
				return false
			}
			sv, ok := constString(other)
			if !ok {
				return false
			}
			if (b.Op == token.EQL) == pol != want {
				return false
			}
			lit, litOK = sv, true
			return true
		}
	}
	out.autoOK = true
	for _, as := range autoStores {
		if isConstBool(as.Val, false) {
			continue
		}
		if !isConstBool(as.Val, true) {
			// RxAuto = (s == "auto")
			if b, ok := resolve(as.Val).(*ssa.BinOp); ok && isLit(true)(b, true) {
				continue
			}
			out.autoOK = false
			out.autoWhy = "RxAuto is set from something other than the comparison of the header with a literal"
			continue
		}
		if !guardedBy(as, isLit(true)) {
			out.autoOK = false
			out.autoWhy = "RxAuto = true is not guarded by `header == literal`"
		}
	}
	out.hasAuto = litOK
	out.auto = lit
	if !litOK && out.autoWhy == "" {
		out.autoOK = false
		out.autoWhy = "no comparison of the header value with a literal found"
	}
	return out
}

// c10spec extracts the tokens of PROTOCOL.md's fenced request/response blocks.
type c10specT struct {
	reqHeaders, respHeaders map[string]string // canonical name -> rest of line
	status                  string
	ok                      bool
}

func c10spec() c10specT {
	var sp c10specT
	b, err := os.ReadFile(filepath.Join(repoRoot, "PROTOCOL.md"))
	if err != nil {
		return sp
	}
	var block []string
	in := false
	flush := func() {
		hdr := map[string]string{}
		kind := ""
		status := ""
		for _, l := range block {
			l = strings.TrimSpace(l)
			if strings.HasPrefix(l, ":method:") {
				kind = "req"
			}
			if strings.HasPrefix(l, ":status:") {
				kind = "resp"
				f := strings.Fields(strings.TrimPrefix(l, ":status:"))
				if len(f) > 0 {
					status = f[0]
				}
			}
			if strings.HasPrefix(l, ":") {
				continue
			}
			if i := strings.Index(l, ":"); i > 0 {
				hdr[textproto.CanonicalMIMEHeaderKey(l[:i])] = strings.TrimSpace(l[i+1:])
			}
		}
		switch kind {
		case "req":
			if sp.reqHeaders == nil {
				sp.reqHeaders = hdr
			}
		case "resp":
			if sp.respHeaders == nil {
				sp.respHeaders = hdr
				sp.status = status
			}
		}
	}
	for _, l := range strings.Split(string(b), "\n") {
		if strings.HasPrefix(strings.TrimSpace(l), "```") {
			if in {
				flush()
				block = nil
			}
			in = !in
			continue
		}
		if in {
			block = append(block, l)
		}
	}
	sp.ok = sp.reqHeaders != nil && sp.respHeaders != nil
	return sp
}

func c10checkCodec(c *Check) {
	p := c.P
	reqEnc := p.Fn(pProtocol, "AuthRequestToHeader")
	reqDec := p.Fn(pProtocol, "AuthRequestFromHeader")
	respEnc := p.Fn(pProtocol, "AuthResponseToHeader")
	respDec := p.Fn(pProtocol, "AuthResponseFromHeader")
	fReqRx := p.Field(pProtocol, "AuthRequest", "Rx")
	fRespRx := p.Field(pProtocol, "AuthResponse", "Rx")
	fRespAuto := p.Field(pProtocol, "AuthResponse", "RxAuto")
	if reqEnc == nil || reqDec == nil || respEnc == nil || respDec == nil || fReqRx == nil || fRespRx == nil || fRespAuto == nil {
		c.Unres("protocol.Auth{Request,Response}{To,From}Header / AuthRequest.Rx / AuthResponse.{Rx,RxAuto}")
		return
	}
	for _, f := range []*ssa.Function{reqEnc, reqDec, respEnc, respDec} {
		c.Saw(fnName(f))
	}
	const r4 = "C10.R4 encoder and decoder of a handshake header carry Rx unchanged (FormatUint of the field / ParseUint into the field) and agree on the header name, radix and width of Rx and on the 'auto' literal; the literal is written only on the RxAuto edge and RxAuto is set only by comparison with it"
	canon := textproto.CanonicalMIMEHeaderKey
	type pair struct {
		name     string
		enc, dec c10codec
	}
	pairs := []pair{
		{"request", c10encoder(p, reqEnc, fReqRx, nil), c10decoder(p, reqDec, fReqRx, nil)},
		{"response", c10encoder(p, respEnc, fRespRx, fRespAuto), c10decoder(p, respDec, fRespRx, fRespAuto)},
	}
	for _, pr := range pairs {
		key := "C10.R4:" + pr.name
		if pr.enc.bad != "" || pr.dec.bad != "" {
			pos := pr.enc.pos
			if pr.enc.bad == "" {
				pos = pr.dec.pos
			}
			c.Bad(key+":rx-unchanged", r4, pos, strings.TrimSpace(pr.enc.bad+" "+pr.dec.bad))
			continue
		}
		c.OK(key+":rx-unchanged", r4, pr.enc.pos)
		if pr.enc.undecided != "" || pr.dec.undecided != "" {
			c.Undecided(key+":header-name", r4, pr.dec.pos, pr.enc.undecided+" "+pr.dec.undecided)
			continue
		}
		c.Req(canon(pr.enc.key) == canon(pr.dec.key), key+":header-name", r4, pr.dec.pos,
			fmt.Sprintf("Rx is written to header %q but read from header %q", pr.enc.key, pr.dec.key))
		c.Req(pr.enc.base == pr.dec.base && pr.dec.bits == 64, key+":radix", r4, pr.dec.pos,
			fmt.Sprintf("Rx is formatted in base %d but parsed in base %d with %d bits (uint64 needs 64)", pr.enc.base, pr.dec.base, pr.dec.bits))
		if pr.name == "response" {
			c.Req(pr.enc.hasAuto && pr.dec.hasAuto && pr.enc.auto == pr.dec.auto, key+":auto-literal", r4, pr.dec.pos,
				fmt.Sprintf("the encoder writes %q for RxAuto but the decoder recognises %q (%s %s)", pr.enc.auto, pr.dec.auto, pr.enc.autoWhy, pr.dec.autoWhy))
			c.Req(pr.enc.autoOK, key+":auto-written-on-RxAuto-edge", r4, pr.enc.pos, pr.enc.autoWhy)
			c.Req(pr.dec.autoOK, key+":RxAuto-set-on-literal-edge", r4, pr.dec.pos, pr.dec.autoWhy)
		}
	}
	// PROTOCOL.md tokens
	const r4s = "C10.R4 header name, 'auto' literal and status code equal the tokens in the fenced request/response blocks of PROTOCOL.md"
	sp := c10spec()
	if !sp.ok {
		c.Unres("fenced request/response blocks of PROTOCOL.md")
		return
	}
	if pairs[0].dec.undecided == "" && pairs[0].dec.bad == "" {
		_, ok := sp.reqHeaders[canon(pairs[0].dec.key)]
		c.Req(ok, "C10.R4:spec:request-header", r4s, pairs[0].dec.pos, fmt.Sprintf("header %q read by the server is not in PROTOCOL.md's request block", pairs[0].dec.key))
	}
	if pairs[1].dec.undecided == "" && pairs[1].dec.bad == "" {
		line, ok := sp.respHeaders[canon(pairs[1].dec.key)]
		c.Req(ok, "C10.R4:spec:response-header", r4s, pairs[1].dec.pos, fmt.Sprintf("header %q read by the client is not in PROTOCOL.md's response block", pairs[1].dec.key))
		if ok && pairs[1].dec.hasAuto {
			c.Req(strings.Contains(line, "\""+pairs[1].dec.auto+"\""), "C10.R4:spec:auto-literal", r4s, pairs[1].dec.pos,
				fmt.Sprintf("literal %q is not the one PROTOCOL.md lists for the header (%s)", pairs[1].dec.auto, line))
		}
	}
	if k := p.Const(pProtocol, "StatusAuthOK"); k != nil {
		c.Req(k.Val().ExactString() == sp.status, "C10.R4:spec:status", r4s, p.Pos(k.Pos()), fmt.Sprintf("StatusAuthOK = %s but PROTOCOL.md says %s", k.Val().ExactString(), sp.status))
	} else {
		c.Unres("protocol.StatusAuthOK")
	}
}

// ---------------------------------------------------------------------------
// R5 installation

// c10typeParam: the string parameter of UseConfigured that is compared with
// string constants (the congestion type); nil when there is none.
func c10typeParam(useConfigured *ssa.Function) *ssa.Parameter {
	var typ *ssa.Parameter
	allInstrs(useConfigured, func(in ssa.Instruction) {
		b, ok := in.(*ssa.BinOp)
		if !ok || (b.Op != token.EQL && b.Op != token.NEQ) {
			return
		}
		for _, pair := range [][2]ssa.Value{{b.X, b.Y}, {b.Y, b.X}} {
			if pr, ok := resolve(pair[0]).(*ssa.Parameter); ok {
				if _, isStr := constString(pair[1]); isStr && typ == nil {
					typ = pr
				}
			}
		}
	})
	return typ
}

// checkConfiguredArgs: UseConfigured is given this side's configured congestion
// type (and BBR profile), not another string of the configuration.
func (s *c10side) checkConfiguredArgs() {
	c, p := s.c, s.p
	const rule = "C10.R5 every UseConfigured call passes CongestionConfig.Type as the congestion type and CongestionConfig.BBRProfile as the profile"
	typ := c10typeParam(s.useConfigured)
	fType := p.Field(s.pkg, "CongestionConfig", "Type")
	fProf := p.Field(s.pkg, "CongestionConfig", "BBRProfile")
	if typ == nil || fType == nil || fProf == nil {
		c.Unres("congestion type parameter of UseConfigured / " + s.name + " CongestionConfig.{Type,BBRProfile}")
		return
	}
	key := "C10.R5:" + s.name + ":UseConfigured-args"
	bad, badPos, undec, n := "", "", "", 0
	for _, fn := range s.fns {
		for _, site := range callsIn(fn, func(ci ssa.CallInstruction) bool { return staticCallee(ci) == s.useConfigured }) {
			n++
			for i, pr := range s.useConfigured.Params {
				b, isStr := pr.Type().Underlying().(*types.Basic)
				if !isStr || b.Kind() != types.String || i >= len(site.Common().Args) {
					continue
				}
				want := fProf
				if pr == typ {
					want = fType
				}
				arg := site.Common().Args[i]
				f, _, ok := c10lastField(arg)
				switch {
				case ok && f == want:
				case ok || constOf(arg) != nil:
					if bad == "" {
						bad, badPos = fmt.Sprintf("parameter %s of UseConfigured receives %s, not CongestionConfig.%s", pr.Name(), c10desc(arg), want.Name()), p.InstrPos(site)
					}
				default:
					undec = "argument " + arg.Name() + " at " + p.InstrPos(site) + " is not a configuration field"
				}
			}
		}
	}
	switch {
	case bad != "":
		c.Bad(key, rule, badPos, bad)
	case undec != "":
		c.Undecided(key, rule, "", undec)
	default:
		c.OK(key, rule, p.Pos(s.top.Pos()))
	}
	c.Floor(key, n, 1)
}

// c10installs lists SetCongestionControl calls along a path with the function
// that built the installed sender.
type c10install struct {
	call   ssa.CallInstruction
	conn   ssa.Value
	ctor   *ssa.Call
	sender *types.Named
}

func c10installOf(in ssa.Instruction) (c10install, bool) {
	ci, ok := in.(ssa.CallInstruction)
	if !ok {
		return c10install{}, false
	}
	recv, ok := methodCallNamed(ci, "SetCongestionControl")
	if !ok {
		return c10install{}, false
	}
	args := callArgs(ci)
	out := c10install{call: ci, conn: recv}
	if len(args) == 1 {
		v := args[0]
		if mi, ok := v.(*ssa.MakeInterface); ok {
			v = mi.X
		}
		v = resolve(v)
		if call, ok := v.(*ssa.Call); ok {
			out.ctor = call
			out.sender = namedOf(call.Type())
		}
	}
	return out, true
}

func c10checkInstall(c *Check, useBrutal, useConfigured *ssa.Function) {
	p := c.P
	const r5 = "C10.R5 UseBrutal installs (SetCongestionControl on its own connection, once on every path) a sender constructed from its rate argument; the constructor stores the argument, through 64-bit conversions only, into the sender's rate field, which has no other writer"
	const r5c = "C10.R5 UseConfigured installs nothing when the type is 'reno' and the BBR sender otherwise; UseBBR ends in SetCongestionControl on its own connection"
	c.Saw(fnName(useBrutal))
	c.Saw(fnName(useConfigured))
	connParam := func(fn *ssa.Function) *ssa.Parameter {
		for _, pr := range fn.Params {
			if n := namedOf(pr.Type()); n != nil && n.Obj().Name() == "Conn" && n.Obj().Pkg() != nil && n.Obj().Pkg().Path() == pQUIC {
				return pr
			}
		}
		return nil
	}
	// pathInstalls: per path, the installs executed (following static calls into pCongestion helpers one level)
	var installsOn func(fn *ssa.Function, pc *c10pc, depth int) ([]c10install, bool)
	summarise := func(fn *ssa.Function, depth int) (mn, mx int, sample []c10install, ok bool) {
		paths, loop, capped := c10paths(fn, nil, 2000)
		if loop || capped || len(paths) == 0 {
			return 0, 0, nil, false
		}
		lp := newLinProver(p, fn)
		mn, mx = 1<<30, 0
		for _, blocks := range paths {
			last := blocks[len(blocks)-1]
			pc := c10mkpc(lp, blocks, last.Instrs[len(last.Instrs)-1])
			ins, ok2 := installsOn(fn, pc, depth)
			if !ok2 {
				return 0, 0, nil, false
			}
			if len(ins) < mn {
				mn = len(ins)
			}
			if len(ins) > mx {
				mx = len(ins)
			}
			sample = append(sample, ins...)
		}
		return mn, mx, sample, true
	}
	installsOn = func(fn *ssa.Function, pc *c10pc, depth int) ([]c10install, bool) {
		var out []c10install
		cp := connParam(fn)
		for _, in := range pc.instrs(nil) {
			if ins, ok := c10installOf(in); ok {
				if cp == nil || resolve(ins.conn) != ssa.Value(cp) {
					ins.conn = nil // not the function's own connection
				}
				out = append(out, ins)
				continue
			}
			if call, ok := in.(*ssa.Call); ok {
				if f := staticCallee(call); f != nil && fnPkg(f) != nil && fnPkg(f).Pkg.Path() == pCongestion && len(f.Blocks) > 0 && depth < 3 {
					mn, mx, sample, ok := summarise(f, depth+1)
					if !ok {
						return nil, false
					}
					if mx == 0 {
						continue
					}
					if mn != mx {
						return nil, false
					}
					// the callee installs on its own connection parameter: map it back
					fcp := connParam(f)
					for _, sin := range sample[:mn] {
						mapped := sin
						if sin.conn != nil && fcp != nil && cp != nil {
							for i, pr := range f.Params {
								if pr == fcp && i < len(call.Call.Args) && resolve(call.Call.Args[i]) == ssa.Value(cp) {
									mapped.conn = cp
								}
							}
							if mapped.conn != ssa.Value(cp) {
								mapped.conn = nil
							}
						} else {
							mapped.conn = nil
						}
						out = append(out, mapped)
					}
				}
			}
		}
		return out, true
	}

	// ---- UseBrutal
	var brutalCtor *ssa.Function
	rateIdx := -1
	{
		key := "C10.R5:UseBrutal"
		var rate *ssa.Parameter
		for _, pr := range useBrutal.Params {
			if c10isUint64(pr.Type()) {
				rate = pr
			}
		}
		mn, mx, sample, ok := summarise(useBrutal, 0)
		if !ok || rate == nil {
			c.Undecided(key+":installs-once", r5, p.Pos(useBrutal.Pos()), "loop / unrecognised shape")
		} else {
			c.Req(mn == 1 && mx == 1, key+":installs-once", r5, p.Pos(useBrutal.Pos()), fmt.Sprintf("a path through UseBrutal performs between %d and %d SetCongestionControl calls", mn, mx))
			good, why := len(sample) > 0, ""
			for _, ins := range sample {
				if ins.conn == nil {
					good, why = false, "the sender is not installed on UseBrutal's own connection argument"
					continue
				}
				if ins.ctor == nil || staticCallee(ins.ctor) == nil {
					good, why = false, "the installed value is not a freshly constructed sender"
					continue
				}
				f := staticCallee(ins.ctor)
				idx := -1
				for i, a := range ins.ctor.Call.Args {
					if c10convOnly(a) == ssa.Value(rate) {
						idx = i
					}
				}
				if idx < 0 {
					good, why = false, "the sender constructor "+f.Name()+" is not given UseBrutal's rate argument unchanged"
					continue
				}
				brutalCtor, rateIdx = f, idx
			}
			pos := p.Pos(useBrutal.Pos())
			if len(sample) > 0 {
				pos = p.InstrPos(sample[0].call)
			}
			c.Req(good, key+":sender-from-rate", r5, pos, why)
		}
	}
	if brutalCtor != nil && len(brutalCtor.Blocks) > 0 && rateIdx < len(brutalCtor.Params) {
		c.Saw(fnName(brutalCtor))
		prm := brutalCtor.Params[rateIdx]
		var field *types.Var
		var pos string
		allInstrs(brutalCtor, func(in ssa.Instruction) {
			st, ok := in.(*ssa.Store)
			if !ok {
				return
			}
			fa, ok := st.Addr.(*ssa.FieldAddr)
			if !ok {
				return
			}
			if c10convOnly(st.Val) == ssa.Value(prm) {
				field = structField(fa.X.Type(), fa.Field)
				pos = p.InstrPos(st)
			}
		})
		c.Req(field != nil, "C10.R5:"+brutalCtor.Name()+":rate-stored", r5, p.Pos(brutalCtor.Pos()),
			"no field of the sender receives the rate parameter "+prm.Name()+" unchanged (through 64-bit conversions only): the enforced rate differs from the negotiated one")
		if field != nil {
			var pkFns []*ssa.Function
			for _, fn := range p.RepoFns {
				if fnPkg(fn) == fnPkg(brutalCtor) {
					pkFns = append(pkFns, fn)
				}
			}
			n := 0
			bad, badPos := "", ""
			for _, fr := range fieldRefs(pkFns, field) {
				switch fr.Kind {
				case "store":
					n++
					if fr.Fn != brutalCtor || c10convOnly(fr.Val) != ssa.Value(prm) {
						bad, badPos = "the rate field "+field.Name()+" is also written in "+fnName(fr.Fn), p.InstrPos(fr.Instr)
					}
				case "addr":
					bad, badPos = "the address of the rate field "+field.Name()+" is taken in "+fnName(fr.Fn), p.InstrPos(fr.Instr)
				}
			}
			if badPos == "" {
				badPos = pos
			}
			c.Req(bad == "", "C10.R5:rate-field:single-writer", r5, badPos, bad)
			c.Floor("C10.R5:rate-field:stores", n, 1)
		}
	} else if brutalCtor != nil {
		c.Unres("body of the Brutal sender constructor " + brutalCtor.Name())
	}

	// ---- UseConfigured
	{
		key := "C10.R5:UseConfigured"
		normalize := p.Fn(pCongestion, "NormalizeType")
		reno := p.Const(pCongestion, "TypeReno")
		if normalize == nil || reno == nil {
			c.Unres("congestion.NormalizeType / congestion.TypeReno")
			return
		}
		renoV := constant.StringVal(reno.Val())
		// the domain of normalised type strings
		domain := map[string]bool{}
		allInstrs(normalize, func(in ssa.Instruction) {
			if r, ok := in.(*ssa.Return); ok {
				if res := retResults(r); len(res) >= 1 {
					vals := []ssa.Value{res[0]}
					if ph, ok := res[0].(*ssa.Phi); ok {
						vals = ph.Edges
					}
					for _, v := range vals {
						if sv, ok := constString(v); ok && sv != "" {
							domain[sv] = true
						}
					}
				}
			}
		})
		if !domain[renoV] || len(domain) < 2 {
			c.Unres("NormalizeType's set of returned type constants (must contain TypeReno and one more)")
			return
		}
		typ := c10typeParam(useConfigured)
		paths, loop, capped := c10paths(useConfigured, nil, 2000)
		if typ == nil || loop || capped || len(paths) == 0 {
			c.Undecided(key+":reno-none-else-bbr", r5c, p.Pos(useConfigured.Pos()), "loop / unrecognised shape")
			return
		}
		lp := newLinProver(p, useConfigured)
		bad := ""
		nReno, nOther := 0, 0
		bbrSender := map[*types.Named]bool{}
		for _, blocks := range paths {
			last := blocks[len(blocks)-1]
			pc := c10mkpc(lp, blocks, last.Instrs[len(last.Instrs)-1])
			// possible type strings on this path
			poss := map[string]bool{}
			for k := range domain {
				poss[k] = true
			}
			for _, e := range pc.edges {
				b, ok := e.cond.(*ssa.BinOp)
				if !ok || (b.Op != token.EQL && b.Op != token.NEQ) {
					continue
				}
				var other ssa.Value
				switch {
				case resolve(b.X) == ssa.Value(typ):
					other = b.Y
				case resolve(b.Y) == ssa.Value(typ):
					other = b.X
				default:
					continue
				}
				sv, ok := constString(other)
				if !ok {
					continue
				}
				if (b.Op == token.EQL) == e.pol {
					for k := range poss {
						if k != sv {
							delete(poss, k)
						}
					}
				} else {
					delete(poss, sv)
				}
			}
			if len(poss) == 0 {
				continue // infeasible for normalised types
			}
			ins, ok := installsOn(useConfigured, pc, 0)
			if !ok {
				c.Undecided(key+":reno-none-else-bbr", r5c, p.Pos(useConfigured.Pos()), "a helper installs a varying number of controllers")
				return
			}
			for k := range poss {
				if k == renoV {
					nReno++
					if len(ins) != 0 && bad == "" {
						bad = "a controller is installed although the configured type is " + renoV + " (" + pc.describe(p) + ")"
					}
				} else {
					nOther++
					if len(ins) != 1 && bad == "" {
						bad = fmt.Sprintf("%d controllers are installed for configured type %q, want exactly one (%s)", len(ins), k, pc.describe(p))
					}
					for _, in := range ins {
						if in.conn == nil && bad == "" {
							bad = "the controller is not installed on UseConfigured's own connection argument"
						}
						if in.sender != nil {
							bbrSender[in.sender] = true
						} else if bad == "" {
							bad = "the installed controller is not a freshly constructed sender"
						}
					}
				}
			}
		}
		if bad == "" {
			for n := range bbrSender {
				if n.Obj().Pkg() == nil || n.Obj().Pkg().Path() != pBBR {
					bad = "the controller installed for the non-reno type is " + n.String() + ", not the BBR sender"
				}
			}
		}
		c.Req(bad == "", key+":reno-none-else-bbr", r5c, p.Pos(useConfigured.Pos()), bad)
		c.Floor(key+":reno-paths", nReno, 1)
		c.Floor(key+":bbr-paths", nOther, 1)
	}
}

// ---------------------------------------------------------------------------

func checkC10(c *Check) {
	p := c.P
	useBrutal := p.Fn(pCongestion, "UseBrutal")
	useConfigured := p.Fn(pCongestion, "UseConfigured")
	if useBrutal == nil || useConfigured == nil {
		c.Unres("congestion.UseBrutal / congestion.UseConfigured")
		return
	}
	a := c.serverAnchors()
	if !a.ok {
		return
	}
	reqDec := p.Fn(pProtocol, "AuthRequestFromHeader")
	respDec := p.Fn(pProtocol, "AuthResponseFromHeader")
	reqEnc := p.Fn(pProtocol, "AuthRequestToHeader")
	respEnc := p.Fn(pProtocol, "AuthResponseToHeader")
	if reqDec == nil || respDec == nil || reqEnc == nil || respEnc == nil {
		c.Unres("protocol.Auth{Request,Response}{From,To}Header")
		return
	}
	fReqRx := p.Field(pProtocol, "AuthRequest", "Rx")
	fRespRx := p.Field(pProtocol, "AuthResponse", "Rx")
	fRespAuto := p.Field(pProtocol, "AuthResponse", "RxAuto")
	sMaxTx := p.Field(pServer, "BandwidthConfig", "MaxTx")
	sMaxRx := p.Field(pServer, "BandwidthConfig", "MaxRx")
	sIgnore := p.Field(pServer, "Config", "IgnoreClientBandwidth")
	cMaxTx := p.Field(pClient, "BandwidthConfig", "MaxTx")
	cMaxRx := p.Field(pClient, "BandwidthConfig", "MaxRx")
	hsTx := p.Field(pClient, "HandshakeInfo", "Tx")
	evLogger := p.Named(pServer, "EventLogger")
	for _, x := range []struct {
		v    *types.Var
		name string
	}{{fReqRx, "protocol.AuthRequest.Rx"}, {fRespRx, "protocol.AuthResponse.Rx"}, {fRespAuto, "protocol.AuthResponse.RxAuto"}, {sMaxTx, "server.BandwidthConfig.MaxTx"}, {sMaxRx, "server.BandwidthConfig.MaxRx"}, {sIgnore, "server.Config.IgnoreClientBandwidth"}, {cMaxTx, "client.BandwidthConfig.MaxTx"}, {cMaxRx, "client.BandwidthConfig.MaxRx"}, {hsTx, "client.HandshakeInfo.Tx"}} {
		if x.v == nil {
			c.Unres("field " + x.name)
			return
		}
	}
	if evLogger == nil {
		c.Unres("server.EventLogger")
		return
	}

	// ---- server
	srv := &c10side{c: c, p: p, name: "server", pkg: pServer, top: a.serveHTTP, useBrutal: useBrutal, useConfigured: useConfigured,
		decode: reqDec, peerRxField: fReqRx, ownTxField: sMaxTx, autoField: sIgnore}
	srv.index()
	srv.markCC()
	// Connect sinks: the uint64 argument of EventLogger.Connect; helpers passing a parameter to it
	connectArg := func(in ssa.Instruction) (ssa.Value, bool) {
		ci, ok := in.(ssa.CallInstruction)
		if !ok || !invokeIs(ci, "Connect") || !types.Identical(ci.Common().Value.Type(), evLogger) {
			return nil, false
		}
		for _, a := range ci.Common().Args {
			if c10isUint64(a.Type()) {
				return a, true
			}
		}
		return nil, false
	}
	nConnect := 0
	for _, fn := range srv.fns {
		allInstrs(fn, func(in ssa.Instruction) {
			if v, ok := connectArg(in); ok {
				nConnect++
				if fn != srv.top {
					if pr, ok := resolve(v).(*ssa.Parameter); ok {
						for i, q := range fn.Params {
							if q == pr {
								srv.reportFn[fn] = i
							}
						}
					}
				}
			}
		})
	}
	srv.isReport = func(in ssa.Instruction) (ssa.Value, bool) {
		if v, ok := connectArg(in); ok {
			return v, true
		}
		if call, ok := in.(*ssa.Call); ok {
			if f := staticCallee(call); f != nil {
				if k, ok := srv.reportFn[f]; ok && k < len(call.Call.Args) {
					return call.Call.Args[k], true
				}
			}
		}
		return nil, false
	}
	srv.success = func(pc *c10pc, ret *ssa.Return) bool {
		return pc.crosses(func(cond ssa.Value, pol bool) bool { return a.authOKEdge(cond, pol) })
	}
	c.Floor("C10.R1:server:Connect-sites", nConnect, 1)
	srv.checkTop()
	c.Floor("C10.R2:server:UseBrutal-sites", srv.checkBrutalSites(), 1)
	c.Floor("C10.R3:server:UseConfigured-sites", srv.checkConfiguredSites(), 1)
	srv.checkConfiguredArgs()
	srv.checkDeclared(respEnc, map[*types.Var]*types.Var{fRespRx: sMaxRx, fRespAuto: sIgnore}, "server's response", 1)

	// ---- client
	var ctop *ssa.Function
	cli := &c10side{c: c, p: p, name: "client", pkg: pClient, useBrutal: useBrutal, useConfigured: useConfigured,
		decode: respDec, peerRxField: fRespRx, ownTxField: cMaxTx, autoField: fRespAuto, autoFromDecode: true}
	cli.index()
	for _, fn := range cli.fns {
		for range callsIn(fn, func(ci ssa.CallInstruction) bool { return staticCallee(ci) == respDec }) {
			ctop = fn
		}
	}
	if ctop == nil {
		c.Unres("the core/client function that decodes the auth response (AuthResponseFromHeader)")
		return
	}
	cli.top = ctop
	cli.markCC()
	txStore := func(in ssa.Instruction) (ssa.Value, bool) {
		st, ok := in.(*ssa.Store)
		if !ok {
			return nil, false
		}
		fa, ok := st.Addr.(*ssa.FieldAddr)
		if !ok || structField(fa.X.Type(), fa.Field) != hsTx {
			return nil, false
		}
		return st.Val, true
	}
	nTx := 0
	for _, fn := range cli.fns {
		allInstrs(fn, func(in ssa.Instruction) {
			if v, ok := txStore(in); ok {
				nTx++
				if fn != cli.top {
					if pr, ok := resolve(v).(*ssa.Parameter); ok {
						for i, q := range fn.Params {
							if q == pr {
								cli.reportFn[fn] = i
							}
						}
					}
				}
			}
		})
	}
	cli.isReport = func(in ssa.Instruction) (ssa.Value, bool) {
		if v, ok := txStore(in); ok {
			return v, true
		}
		if call, ok := in.(*ssa.Call); ok {
			if f := staticCallee(call); f != nil {
				if k, ok := cli.reportFn[f]; ok && k < len(call.Call.Args) {
					return call.Call.Args[k], true
				}
			}
		}
		return nil, false
	}
	cli.success = func(pc *c10pc, ret *ssa.Return) bool {
		res := retResults(ret)
		if len(res) == 0 {
			return true
		}
		last := res[len(res)-1]
		if types.Identical(last.Type(), types.Universe.Lookup("error").Type()) {
			return isNilConst(pc.eval(last))
		}
		return true
	}
	c.Floor("C10.R1:client:HandshakeInfo.Tx-stores", nTx, 1)
	cli.checkTop()
	nbc := cli.checkBrutalSites()
	ncc := cli.checkConfiguredSites()
	cli.checkConfiguredArgs()
	c.Floor("C10.R2:client:UseBrutal-sites", nbc, 1)
	c.Floor("C10.R3:client:UseConfigured-sites", ncc, 1)
	cli.checkDeclared(reqEnc, map[*types.Var]*types.Var{fReqRx: cMaxRx}, "client's request", 1)

	// ---- codecs, installation
	c10checkCodec(c)
	c10checkInstall(c, useBrutal, useConfigured)
}

package main

import (
	"go/types"

	"golang.org/x/tools/go/ssa"
)

// K3 Lockset: forward must-hold analysis on the CFG.  A lock is identified by
// the struct field holding the mutex (the last field of the receiver's access
// path); instance sensitivity is not needed for the per-object disciplines the
// rules state (every rule is about methods operating on one receiver).

type lockMode int

const (
	lockNone lockMode = iota
	lockR
	lockW
)

type lockSet map[*types.Var]lockMode

func (s lockSet) clone() lockSet {
	o := lockSet{}
	for k, v := range s {
		o[k] = v
	}
	return o
}

func meet(a, b lockSet) lockSet {
	o := lockSet{}
	for k, v := range a {
		if w, ok := b[k]; ok {
			if w < v {
				v = w
			}
			o[k] = v
		}
	}
	return o
}

func equalLS(a, b lockSet) bool {
	if len(a) != len(b) {
		return false
	}
	for k, v := range a {
		if b[k] != v {
			return false
		}
	}
	return true
}

// lockOp classifies a call as a mutex operation.
func lockOp(c ssa.CallInstruction) (field *types.Var, op string) {
	f := staticCallee(c)
	if f == nil || f.Signature.Recv() == nil {
		return nil, ""
	}
	pk := fnPkg(f)
	if pk == nil || pk.Pkg.Path() != "sync" {
		return nil, ""
	}
	switch f.Name() {
	case "Lock", "Unlock", "RLock", "RUnlock":
	default:
		return nil, ""
	}
	args := c.Common().Args
	if len(args) == 0 {
		return nil, ""
	}
	ap := accessPath(args[0])
	if len(ap.Fields) == 0 {
		return nil, ""
	}
	return ap.Fields[len(ap.Fields)-1], f.Name()
}

type LockAnalysis struct {
	p       *Prog
	callers map[*ssa.Function][]ssa.CallInstruction
	escaped map[*ssa.Function]bool // used as a value / go / defer / closure
	at      map[*ssa.Function]map[ssa.Instruction]lockSet
	entry   map[*ssa.Function]lockSet
	busy    map[*ssa.Function]bool
}

func (p *Prog) Locks() *LockAnalysis {
	la := &LockAnalysis{p: p, callers: map[*ssa.Function][]ssa.CallInstruction{}, escaped: map[*ssa.Function]bool{}, at: map[*ssa.Function]map[ssa.Instruction]lockSet{}, entry: map[*ssa.Function]lockSet{}, busy: map[*ssa.Function]bool{}}
	for _, fn := range p.RepoFns {
		allInstrs(fn, func(in ssa.Instruction) {
			if c, ok := in.(ssa.CallInstruction); ok {
				if f := staticCallee(c); f != nil {
					if _, isCall := in.(*ssa.Call); isCall {
						la.callers[f] = append(la.callers[f], c)
					} else {
						la.escaped[f] = true // go / defer: not under the caller's lock state
					}
				}
			}
			for _, op := range in.Operands(nil) {
				if f, ok := (*op).(*ssa.Function); ok {
					if c, isCall := in.(ssa.CallInstruction); isCall && c.Common().Value == f {
						continue
					}
					la.escaped[f] = true
				}
				if mc, ok := (*op).(*ssa.MakeClosure); ok {
					if c, isCall := in.(*ssa.Call); isCall && c.Call.Value == mc {
						// immediately invoked closure: treated as a call site
						la.callers[mc.Fn.(*ssa.Function)] = append(la.callers[mc.Fn.(*ssa.Function)], c)
						continue
					}
					la.escaped[mc.Fn.(*ssa.Function)] = true
				}
			}
		})
	}
	return la
}

// HeldAtEntry: locks held by every caller at every call site (lock-context
// helper functions are discovered this way, not by name).
func (la *LockAnalysis) HeldAtEntry(fn *ssa.Function) lockSet {
	if s, ok := la.entry[fn]; ok {
		return s
	}
	if la.busy[fn] {
		return lockSet{}
	}
	la.busy[fn] = true
	defer func() { la.busy[fn] = false }()
	res := lockSet{}
	cs := la.callers[fn]
	exported := fn.Object() != nil && fn.Object().Exported()
	if len(cs) > 0 && !la.escaped[fn] && !exported {
		first := true
		for _, c := range cs {
			// a method called on a receiver freshly allocated in the caller
			// (constructor, object not yet shared) constrains nothing
			if args := c.Common().Args; len(args) > 0 && fn.Signature.Recv() != nil {
				if al, ok := resolve(args[0]).(*ssa.Alloc); ok && al.Parent() == c.Parent() {
					continue
				}
			}
			h := la.HeldAt(c)
			if first {
				res = h.clone()
				first = false
			} else {
				res = meet(res, h)
			}
		}
	}
	la.entry[fn] = res
	return res
}

// HeldAt returns the must-hold set just before instruction in.
func (la *LockAnalysis) HeldAt(in ssa.Instruction) lockSet {
	fn := in.Parent()
	m, ok := la.at[fn]
	if !ok {
		m = la.analyse(fn)
		la.at[fn] = m
	}
	if s, ok := m[in]; ok {
		return s
	}
	return lockSet{}
}

func (la *LockAnalysis) analyse(fn *ssa.Function) map[ssa.Instruction]lockSet {
	res := map[ssa.Instruction]lockSet{}
	if len(fn.Blocks) == 0 {
		return res
	}
	in := map[*ssa.BasicBlock]lockSet{}
	out := map[*ssa.BasicBlock]lockSet{}
	hasOut := map[*ssa.BasicBlock]bool{}
	entry := la.HeldAtEntry(fn)
	transfer := func(b *ssa.BasicBlock, s lockSet, record bool) lockSet {
		cur := s.clone()
		for _, ins := range b.Instrs {
			if record {
				res[ins] = cur.clone()
			}
			c, ok := ins.(*ssa.Call)
			if !ok {
				continue
			}
			f, op := lockOp(c)
			if f == nil {
				continue
			}
			switch op {
			case "Lock":
				cur[f] = lockW
			case "RLock":
				cur[f] = lockR
			case "Unlock", "RUnlock":
				delete(cur, f)
			}
		}
		return cur
	}
	changed := true
	for iter := 0; changed && iter < 100; iter++ {
		changed = false
		for _, b := range fn.Blocks {
			var s lockSet
			if b == fn.Blocks[0] {
				s = entry.clone()
			} else {
				first := true
				for _, pr := range b.Preds {
					if !hasOut[pr] {
						continue
					}
					if first {
						s = out[pr].clone()
						first = false
					} else {
						s = meet(s, out[pr])
					}
				}
				if first {
					continue // no processed predecessor yet
				}
			}
			in[b] = s
			o := transfer(b, s, false)
			if !hasOut[b] || !equalLS(o, out[b]) {
				out[b] = o
				hasOut[b] = true
				changed = true
			}
		}
	}
	for _, b := range fn.Blocks {
		if s, ok := in[b]; ok {
			transfer(b, s, true)
		}
	}
	return res
}

// Holds reports whether lock field f is held (at least mode) before in.
func (la *LockAnalysis) Holds(in ssa.Instruction, f *types.Var, mode lockMode) bool {
	return la.HeldAt(in)[f] >= mode && la.HeldAt(in)[f] != lockNone
}

// sameRegion: b is reachable from a only with lock f continuously held, i.e.
// no Unlock of f lies on any a→b path, and both hold it.
func (la *LockAnalysis) sameRegion(a, b ssa.Instruction, f *types.Var, mode lockMode) bool {
	if !la.Holds(a, f, mode) || !la.Holds(b, f, mode) {
		return false
	}
	hitUnlock := false
	reached := false
	for _, in := range reachFrom(a.Parent(), a, func(in ssa.Instruction) bool { return in == b }, nil) {
		if in == b {
			reached = true
			continue
		}
		if c, ok := in.(*ssa.Call); ok {
			if lf, op := lockOp(c); lf == f && (op == "Unlock" || op == "RUnlock") {
				// only matters if b is still reachable after this unlock
				for _, in2 := range reachFrom(a.Parent(), c, func(x ssa.Instruction) bool { return x == b }, nil) {
					if in2 == b {
						hitUnlock = true
					}
				}
			}
		}
	}
	return reached && !hitUnlock
}

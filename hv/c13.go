package main

import (
	"fmt"
	"go/constant"
	"go/token"
	"go/types"
	"sort"
	"strings"

	"golang.org/x/tools/go/ssa"
)

// C13 – Salamander obfuscation: spec shape of the keystream, the shared
// key-input buffer under its mutex, byte counts / drop-and-retry of the socket
// wrapper, refusal of short keys.
//
// Anchors are resolved by role starting from the exported constructor
// obfs.WrapPacketConnSalamander: the obfuscator type is the pointer type with
// Obfuscate/Deobfuscate methods that the constructor hands to the conn
// wrapper, the wrapper type is the struct the obfuscator is stored into, its
// buffers/mutexes are the fields used at the inner ReadFrom/WriteTo calls, the
// key-input buffer is the field hashed by blake2b, etc.  Offsets and lengths are
// compared as linear forms over SSA values (c13lin), looking through helper
// calls by substituting parameters (c13env), so that extracting the XOR loop or
// the key derivation into helpers does not change the verdict.  The wrapper
// rules (R3) find the inner calls in ReadFrom/WriteTo or in the obfs helpers
// they call, and follow a returned count through φ nodes, local variables kept
// in memory (named results spilled by a defer) and helper results, one helper
// return at a time (c13leaves); a guard may sit in the helper or in the caller,
// directly or as a boolean flag the helper computed (c13anchors.implies).  The
// constructor may build the object with a composite literal or field by field.

const (
	c13blake   = "golang.org/x/crypto/blake2b"
	c13saltLen = 8  // PROTOCOL.md: [8 bytes] Salt
	c13keyLen  = 32 // BLAKE2b-256
	c13pskMin  = 4
)

func init() {
	register(&propDef{
		ID:        "C13",
		Run:       checkC13,
		Technique: "static analysis: symbolic (linear) offsets/lengths over SSA with parameter substitution through helpers, value provenance of the XOR key, lockset + content-use census of the shared buffers, edge-guard reachability of returns (go/ssa)",
		Explanation: "R1 spec shape: in Obfuscate and Deobfuscate every XOR store combines plaintext byte j with key[j mod 32] and wire byte j+8; the key is the by-value result of blake2b.Sum256 (the only blake2b entry point used) over the whole key-input buffer, whose tail at offset len(PSK) is overwritten, in the same function, with exactly the 8 bytes at wire offset 0; the constructor sizes that buffer len(PSK)+8 and copies the PSK (a copy of the caller's key) to offset 0 before the object is handed out (composite literal or field-wise construction); the methods return 0 or len(in)+8 / len(in)-8. " +
			"R2 shared buffer: the hash and the salt copy run in one critical section of the obfuscator's mutex, every use of the key-input buffer's contents holds it, and the key leaves the critical section by value (its origin is never receiver-owned storage). " +
			"R3 wrapper: WriteTo obfuscates p into the write buffer and sends exactly writeBuf[:nn] to the caller's address inside one critical section, returning len(p) (0 only on the error edge); ReadFrom receives the wire datagram (payload + 8 salt bytes) into storage of its own, never into the caller's buffer p or a slice of it (p is sized for the payload: a read into p truncates every datagram with len(payload) <= len(p) < len(payload)+8), and deobfuscates readBuf[:n] of the inner read into p inside one critical section and every return is reachable only over `deobfuscated n > 0`, `err != nil` or (for the raw count) `n <= 0` – otherwise it loops; both buffers' contents are used only under their mutex; the inner calls, counts and guards are followed into obfs helpers of ReadFrom/WriteTo (per helper return, including boolean retry flags). " +
			"R4 short keys: the constructor returns an obfuscator only over the edge len(psk) >= 4 (exactly) and a non-nil error otherwise; every caller chain (WrapPacketConnSalamander, WrapPacketConnGecko, app wrapObfs) uses the result only on the err == nil edge.",
		NotDecided: []string{
			"actual wire bytes for all keys/salts and interoperability with other implementations (needs execution against an independent BLAKE2b)",
			"behaviour for payloads > 2040 bytes (buffer constant): WriteTo then sends an empty datagram and still reports len(p)",
			"that the XOR loop visits every payload index (loop bounds) – only the index relation of each XOR store",
			"that the salt is random (math/rand quality) – only that the salt hashed is the salt on the wire",
			"the inner length guard of Deobfuscate (`len(in)-8 <= 0`): weakening it to `< 0` is behaviour-preserving because the wrapper re-reads on any count <= 0; what is decided is that Deobfuscate returns 0 or len(in)-8 and that the wrapper loops unless n > 0",
			"RandSrc is not required to be under the obfuscator mutex: Obfuscate is only reached under the wrapper's write mutex",
			"an empty datagram (n == 0, err == nil from the inner conn) is passed through to the caller as a 0-byte read before Deobfuscate is consulted",
			"PROTOCOL.md token agreement (documentation, not code)",
		},
		Assumptions: []string{
			"callees outside the repository (blake2b.Sum256, copy, the inner PacketConn, math/rand) do not retain the slices they are handed",
			"the obfuscator interface contract: Deobfuscate returns >= 0 (established for Salamander by R1 returns)",
			"lock identity is per mutex field of the receiver (one object per wrapped socket)",
		},
	})
}

// ---------------------------------------------------------------------------
// linear forms

type c13key struct {
	kind string
	v    ssa.Value
	f    *types.Var
}

type c13lin struct {
	t map[c13key]int64
	c int64
}

func c13const(n int64) c13lin { return c13lin{t: map[c13key]int64{}, c: n} }

func c13term(k c13key) c13lin { return c13lin{t: map[c13key]int64{k: 1}} }

func (a c13lin) addScaled(b c13lin, s int64) c13lin {
	o := c13lin{t: map[c13key]int64{}, c: a.c + s*b.c}
	for k, v := range a.t {
		o.t[k] = v
	}
	for k, v := range b.t {
		o.t[k] += s * v
		if o.t[k] == 0 {
			delete(o.t, k)
		}
	}
	return o
}

func (a c13lin) add(b c13lin) c13lin { return a.addScaled(b, 1) }
func (a c13lin) sub(b c13lin) c13lin { return a.addScaled(b, -1) }

// isConst: the form has no symbolic term.
func (a c13lin) isConst() (int64, bool) {
	for _, v := range a.t {
		if v != 0 {
			return 0, false
		}
	}
	return a.c, true
}

func (a c13lin) equal(b c13lin) bool {
	d, ok := a.sub(b).isConst()
	return ok && d == 0
}

func (a c13lin) String() string {
	var parts []string
	for k, v := range a.t {
		n := k.kind
		if k.v != nil {
			n += "(" + k.v.Name() + ")"
		}
		if k.f != nil {
			n += "." + k.f.Name()
		}
		if v != 1 {
			n = fmt.Sprintf("%d*%s", v, n)
		}
		parts = append(parts, n)
	}
	sort.Strings(parts)
	if a.c != 0 || len(parts) == 0 {
		parts = append(parts, fmt.Sprint(a.c))
	}
	return strings.Join(parts, "+")
}

// ---------------------------------------------------------------------------
// evaluation context: a chain of static call sites below an entry function

type c13env struct {
	fn   *ssa.Function
	call *ssa.Call // site in up.fn that entered fn; nil for the entry
	up   *c13env
	// fresh: (constructor) loads of a field of an object allocated in fn are
	// replaced by the single dominating store into that field, so that
	// `ob.f = x; use(ob.f)` reads like `use(x)`
	fresh bool
	// bind: results of these helper calls are read as the results of one
	// particular return of the helper (set while c13leaves expands that return)
	bind map[*ssa.Call]*c13bound
	// ld: loads of a local variable read as the value of one particular
	// reaching store (set while c13leaves expands that store)
	ld map[*ssa.UnOp]ssa.Value
}

type c13bound struct {
	ret *ssa.Return
	env *c13env
}

// c13reachingStores: u loads a local variable whose address does not escape;
// returns the stores that may have written the value it reads.  ok is false
// when u is not such a load or the variable's zero value may reach it.
func c13reachingStores(u *ssa.UnOp) ([]*ssa.Store, bool) {
	al, ok := u.X.(*ssa.Alloc)
	if !ok || al.Referrers() == nil || u.Block() == nil {
		return nil, false
	}
	for _, r := range *al.Referrers() {
		switch x := r.(type) {
		case *ssa.Store:
			if x.Addr != ssa.Value(al) {
				return nil, false
			}
		case *ssa.UnOp, *ssa.DebugRef:
		default:
			return nil, false
		}
	}
	var found []*ssa.Store
	zero := false
	seen := map[*ssa.BasicBlock]bool{}
	var back func(b *ssa.BasicBlock, from int)
	back = func(b *ssa.BasicBlock, from int) {
		for i := from; i >= 0; i-- {
			if st, ok := b.Instrs[i].(*ssa.Store); ok && st.Addr == ssa.Value(al) {
				for _, f := range found {
					if f == st {
						return
					}
				}
				found = append(found, st)
				return
			}
		}
		if len(b.Preds) == 0 {
			zero = true
			return
		}
		for _, p := range b.Preds {
			if !seen[p] {
				seen[p] = true
				back(p, len(p.Instrs)-1)
			}
		}
	}
	back(u.Block(), instrIndex(u)-1)
	if zero || len(found) == 0 {
		return nil, false
	}
	return found, true
}

// c13resultOf: v is result #idx of a call (`extract call #idx` or a
// single-result call itself).
func c13resultOf(v ssa.Value) (*ssa.Call, int) {
	switch x := v.(type) {
	case *ssa.Extract:
		if call, ok := x.Tuple.(*ssa.Call); ok {
			return call, x.Index
		}
	case *ssa.Call:
		if _, isT := x.Type().(*types.Tuple); !isT {
			return x, 0
		}
	}
	return nil, -1
}

// c13freshFieldLoad: v loads field f of an object allocated in the same
// function whose field f is stored exactly once, before the load.
func c13freshFieldLoad(v ssa.Value) ssa.Value {
	u, ok := v.(*ssa.UnOp)
	if !ok || u.Op != token.MUL {
		return nil
	}
	fa, ok := u.X.(*ssa.FieldAddr)
	if !ok {
		return nil
	}
	al, ok := resolve(fa.X).(*ssa.Alloc)
	if !ok || al.Parent() != u.Parent() {
		return nil
	}
	var st *ssa.Store
	n := 0
	allInstrs(u.Parent(), func(in ssa.Instruction) {
		s, ok := in.(*ssa.Store)
		if !ok {
			return
		}
		if fb, ok := s.Addr.(*ssa.FieldAddr); ok && fb.Field == fa.Field && resolve(fb.X) == ssa.Value(al) {
			st = s
			n++
		}
	})
	if n != 1 || !dominates(st, u) {
		return nil
	}
	return st.Val
}

func (e *c13env) onStack(f *ssa.Function) bool {
	for x := e; x != nil; x = x.up {
		if x.fn == f {
			return true
		}
	}
	return false
}

// subst looks through value-preserving instructions and replaces parameters of
// helper functions by the argument at the call site that entered them.
func (e *c13env) subst(v ssa.Value) (ssa.Value, *c13env) {
	for i := 0; i < 64 && v != nil; i++ {
		v = resolve(v)
		if e != nil && len(e.bind) > 0 {
			if call, idx := c13resultOf(v); call != nil {
				if b := e.bind[call]; b != nil {
					if res := retResults(b.ret); idx < len(res) {
						v, e = res[idx], b.env
						continue
					}
				}
			}
		}
		if e != nil && e.fresh {
			if sv := c13freshFieldLoad(v); sv != nil {
				v = sv
				continue
			}
		}
		if u, ok := v.(*ssa.UnOp); ok && u.Op == token.MUL {
			// local variable kept in memory (e.g. a named result spilled because of
			// a defer): the store bound by c13leaves, or the only store reaching
			// the load
			if e != nil && e.ld[u] != nil {
				v = e.ld[u]
				continue
			}
			if sts, ok := c13reachingStores(u); ok && len(sts) == 1 {
				v = sts[0].Val
				continue
			}
		}
		p, ok := v.(*ssa.Parameter)
		if !ok || e == nil || e.up == nil || p.Parent() != e.fn {
			return v, e
		}
		idx := -1
		for j, q := range e.fn.Params {
			if q == p {
				idx = j
			}
		}
		args := e.call.Call.Args
		if idx < 0 || idx >= len(args) {
			return v, e
		}
		v, e = args[idx], e.up
	}
	return v, e
}

func c13fieldLoad(v ssa.Value) (*ssa.FieldAddr, *types.Var) {
	u, ok := v.(*ssa.UnOp)
	if !ok || u.Op != token.MUL {
		return nil, nil
	}
	fa, ok := u.X.(*ssa.FieldAddr)
	if !ok {
		return nil, nil
	}
	return fa, structField(fa.X.Type(), fa.Field)
}

// c13calleePkg: package path of a static callee ("" for dynamic calls).
func c13calleePkg(ci ssa.CallInstruction) string {
	f := staticCallee(ci)
	if f == nil {
		return ""
	}
	if pk := fnPkg(f); pk != nil {
		return pk.Pkg.Path()
	}
	return ""
}

func c13isInt(t types.Type) bool {
	b, ok := t.Underlying().(*types.Basic)
	return ok && b.Info()&types.IsInteger != 0
}

// lin evaluates an integer SSA value as a linear form.
func (e *c13env) lin(v ssa.Value) c13lin { return e.linD(v, 0) }

func (e *c13env) linD(v ssa.Value, d int) c13lin {
	v, e2 := e.subst(v)
	if d < 24 {
		switch x := v.(type) {
		case *ssa.Const:
			if x.Value != nil && x.Value.Kind() == constant.Int {
				if n, ok := constant.Int64Val(x.Value); ok {
					return c13const(n)
				}
			}
		case *ssa.BinOp:
			switch x.Op {
			case token.ADD:
				return e2.linD(x.X, d+1).add(e2.linD(x.Y, d+1))
			case token.SUB:
				return e2.linD(x.X, d+1).sub(e2.linD(x.Y, d+1))
			}
		case *ssa.Convert:
			if c13isInt(x.Type()) && c13isInt(x.X.Type()) {
				return e2.linD(x.X, d+1)
			}
		case *ssa.Call:
			if isBuiltinCall(x, "len") && len(x.Call.Args) == 1 {
				return e2.lenD(x.Call.Args[0], d+1)
			}
		}
	}
	return c13term(c13key{kind: "val", v: v})
}

// lenOf gives the length of a slice-typed value as a linear form.
func (e *c13env) lenOf(v ssa.Value) c13lin { return e.lenD(v, 0) }

func (e *c13env) lenD(v ssa.Value, d int) c13lin {
	v, e2 := e.subst(v)
	if d < 24 {
		switch s := v.(type) {
		case *ssa.Slice:
			lo := c13const(0)
			if s.Low != nil {
				lo = e2.linD(s.Low, d+1)
			}
			if s.High != nil {
				return e2.linD(s.High, d+1).sub(lo)
			}
			if pt, ok := s.X.Type().Underlying().(*types.Pointer); ok {
				if at, ok := pt.Elem().Underlying().(*types.Array); ok {
					return c13const(at.Len()).sub(lo)
				}
			}
			return e2.lenD(s.X, d+1).sub(lo)
		case *ssa.MakeSlice:
			return e2.linD(s.Len, d+1)
		case *ssa.Parameter:
			return c13term(c13key{kind: "len", v: s})
		case *ssa.UnOp:
			if fa, f := c13fieldLoad(s); fa != nil && f != nil {
				r, _ := e2.subst(fa.X)
				return c13term(c13key{kind: "lenf", v: r, f: f})
			}
		}
	}
	return c13term(c13key{kind: "len", v: v})
}

// c13loc is a position inside a piece of storage: root + offset.
type c13loc struct {
	root c13key
	off  c13lin
}

func (l c13loc) isField(recv ssa.Value, f *types.Var) bool {
	return l.root.kind == "field" && l.root.v == recv && l.root.f == f
}

func (l c13loc) isParam(p *ssa.Parameter) bool {
	return l.root.kind == "param" && l.root.v == ssa.Value(p)
}

// locOfSlice: where does the slice (or pointer-to-array) value start?
func (e *c13env) locOfSlice(v ssa.Value) c13loc { return e.locD(v, 0) }

func (e *c13env) locD(v ssa.Value, d int) c13loc {
	v, e2 := e.subst(v)
	if d < 24 {
		switch s := v.(type) {
		case *ssa.Slice:
			b := e2.locD(s.X, d+1)
			if s.Low != nil {
				b.off = b.off.add(e2.lin(s.Low))
			}
			return b
		case *ssa.Parameter:
			return c13loc{root: c13key{kind: "param", v: s}, off: c13const(0)}
		case *ssa.UnOp:
			if fa, f := c13fieldLoad(s); fa != nil && f != nil {
				r, _ := e2.subst(fa.X)
				return c13loc{root: c13key{kind: "field", v: r, f: f}, off: c13const(0)}
			}
		case *ssa.Alloc:
			return c13loc{root: c13key{kind: "alloc", v: s}, off: c13const(0)}
		}
	}
	return c13loc{root: c13key{kind: "val", v: v}, off: c13const(0)}
}

func (e *c13env) addrLoc(ia *ssa.IndexAddr) c13loc {
	b := e.locOfSlice(ia.X)
	b.off = b.off.add(e.lin(ia.Index))
	return b
}

// ---------------------------------------------------------------------------
// comparisons on edges

// c13edgeBound: what does taking the edge (cond, pol) imply for the term T?
// Returns lower / upper bounds on T when the condition compares a*T + c (a = ±1)
// with zero.  nonneg: T is known to be >= 0 (lengths, obfuscator results), so
// `T != 0` implies T >= 1.
func (e *c13env) edgeBound(cond ssa.Value, pol bool, T c13key, nonneg bool) (lo, hi int64, hasLo, hasHi bool) {
	b, ok := cond.(*ssa.BinOp)
	if !ok {
		return
	}
	op := b.Op
	switch op {
	case token.LSS, token.LEQ, token.GTR, token.GEQ, token.EQL, token.NEQ:
	default:
		return
	}
	if !c13isInt(b.X.Type()) {
		return
	}
	if !pol {
		op = map[token.Token]token.Token{token.LSS: token.GEQ, token.LEQ: token.GTR, token.GTR: token.LEQ, token.GEQ: token.LSS, token.EQL: token.NEQ, token.NEQ: token.EQL}[op]
	}
	d := e.lin(b.X).sub(e.lin(b.Y)) // d op 0
	a, okT := d.t[T]
	if !okT || (a != 1 && a != -1) || len(d.t) != 1 {
		return
	}
	c := d.c
	if a == -1 {
		// -T + c op 0  <=>  T (flipped op) c   <=>  T - c (flipped op) 0
		op = map[token.Token]token.Token{token.LSS: token.GTR, token.LEQ: token.GEQ, token.GTR: token.LSS, token.GEQ: token.LEQ, token.EQL: token.EQL, token.NEQ: token.NEQ}[op]
		c = -c
	}
	// T + c op 0
	switch op {
	case token.LSS:
		return 0, -c - 1, false, true
	case token.LEQ:
		return 0, -c, false, true
	case token.GTR:
		return -c + 1, 0, true, false
	case token.GEQ:
		return -c, 0, true, false
	case token.EQL:
		return -c, -c, true, true
	case token.NEQ:
		if nonneg && c == 0 {
			return 1, 0, true, false
		}
	}
	return
}

// ---------------------------------------------------------------------------
// anchors

type c13anchors struct {
	p        *Prog
	wrapFn   *ssa.Function // WrapPacketConnSalamander
	ctor     *ssa.Function // function building the obfuscator
	salT     *types.Named
	obf      *ssa.Function
	deobf    *ssa.Function
	connCtor *ssa.Function
	connT    *types.Named
	connRead *ssa.Function
	connWrt  *ssa.Function
	obfsFns  []*ssa.Function // repo functions of package obfs
}

func (a *c13anchors) inObfs(f *ssa.Function) bool {
	pk := fnPkg(f)
	return pk != nil && pk.Pkg.Path() == pObfs && len(f.Blocks) > 0
}

func c13hasObfMethods(p *Prog, t types.Type) bool {
	pt, ok := t.(*types.Pointer)
	if !ok {
		return false
	}
	n, ok := pt.Elem().(*types.Named)
	if !ok || n.Obj().Pkg() == nil || n.Obj().Pkg().Path() != pObfs {
		return false
	}
	if _, ok := n.Underlying().(*types.Struct); !ok {
		return false
	}
	return p.MethodOf(t, "Obfuscate") != nil && p.MethodOf(t, "Deobfuscate") != nil
}

func c13resolve(c *Check) *c13anchors {
	p := c.P
	a := &c13anchors{p: p}
	for _, fn := range p.RepoFns {
		if a.inObfs(fn) {
			a.obfsFns = append(a.obfsFns, fn)
		}
	}
	a.wrapFn = p.Fn(pObfs, "WrapPacketConnSalamander")
	if a.wrapFn == nil {
		c.Unres("obfs.WrapPacketConnSalamander")
		return nil
	}
	// the obfuscator value built in the exported constructor
	var obVal ssa.Value
	allInstrs(a.wrapFn, func(in ssa.Instruction) {
		if v, ok := in.(ssa.Value); ok && obVal == nil && c13hasObfMethods(p, v.Type()) {
			obVal = v
		}
	})
	if obVal == nil {
		c.Unres("obfuscator value (pointer type with Obfuscate/Deobfuscate) built in WrapPacketConnSalamander")
		return nil
	}
	a.salT = obVal.Type().(*types.Pointer).Elem().(*types.Named)
	a.obf = p.MethodOf(obVal.Type(), "Obfuscate")
	a.deobf = p.MethodOf(obVal.Type(), "Deobfuscate")
	if a.obf == nil || a.deobf == nil || len(a.obf.Params) != 3 || len(a.deobf.Params) != 3 || len(a.obf.Blocks) == 0 || len(a.deobf.Blocks) == 0 {
		c.Unres("Obfuscate/Deobfuscate(in, out []byte) int of " + a.salT.Obj().Name())
		return nil
	}
	a.ctor = a.wrapFn
	src := obVal
	if tup, _ := tupleSource(obVal); tup != nil {
		src = tup
	}
	if call, ok := src.(*ssa.Call); ok {
		if f := staticCallee(call); f != nil && a.inObfs(f) {
			a.ctor = f
		}
	}
	// the conn wrapper: the callee that receives the obfuscator and stores it
	// into a field of a freshly allocated struct
	// (followed through up to three levels of obfs helpers the value is handed to)
	var follow func(fn *ssa.Function, val ssa.Value, depth int)
	follow = func(fn *ssa.Function, val ssa.Value, depth int) {
		allInstrs(fn, func(in ssa.Instruction) {
			if a.connT != nil {
				return
			}
			switch x := in.(type) {
			case *ssa.Store:
				if resolve(x.Val) != val {
					return
				}
				if fa, ok := x.Addr.(*ssa.FieldAddr); ok {
					if al, ok := resolve(fa.X).(*ssa.Alloc); ok {
						if n := namedOf(al.Type()); n != nil {
							a.connT, a.connCtor = n, fn
						}
					}
				}
			case *ssa.Call:
				f := staticCallee(x)
				if f == nil || !a.inObfs(f) || depth >= 3 || f == fn {
					return
				}
				for i, arg := range x.Call.Args {
					if resolve(arg) == val && i < len(f.Params) {
						follow(f, f.Params[i], depth+1)
					}
				}
			}
		})
	}
	follow(a.wrapFn, obVal, 0)
	if a.connT == nil {
		c.Unres("packet-conn wrapper type storing the obfuscator (callee of WrapPacketConnSalamander)")
		return nil
	}
	pt := types.NewPointer(a.connT)
	a.connRead, a.connWrt = p.MethodOf(pt, "ReadFrom"), p.MethodOf(pt, "WriteTo")
	if a.connRead == nil || a.connWrt == nil || len(a.connRead.Blocks) == 0 || len(a.connWrt.Blocks) == 0 {
		c.Unres("ReadFrom/WriteTo of " + a.connT.Obj().Name())
		return nil
	}
	return a
}

// walk visits the instructions of e.fn and, context-sensitively, of the obfs
// helpers it calls statically.
func (a *c13anchors) walk(e *c13env, depth int, visit func(ssa.Instruction, *c13env)) {
	allInstrs(e.fn, func(in ssa.Instruction) {
		visit(in, e)
		if call, ok := in.(*ssa.Call); ok && depth < 3 {
			if f := staticCallee(call); f != nil && a.inObfs(f) && !e.onStack(f) {
				a.walk(&c13env{fn: f, call: call, up: e}, depth+1, visit)
			}
		}
	})
}

// mutexesOf: mutex fields of struct type T in a lock set.
func c13mutexesOf(ls lockSet, T *types.Named) []*types.Var {
	st, ok := T.Underlying().(*types.Struct)
	if !ok {
		return nil
	}
	var out []*types.Var
	for i := 0; i < st.NumFields(); i++ {
		if m, ok := ls[st.Field(i)]; ok && m == lockW {
			out = append(out, st.Field(i))
		}
	}
	return out
}

func c13commonMutex(la *LockAnalysis, T *types.Named, ins ...ssa.Instruction) *types.Var {
	var cand []*types.Var
	for i, in := range ins {
		ms := c13mutexesOf(la.HeldAt(in), T)
		if i == 0 {
			cand = ms
			continue
		}
		var keep []*types.Var
		for _, m := range cand {
			for _, n := range ms {
				if m == n {
					keep = append(keep, m)
				}
			}
		}
		cand = keep
	}
	if len(cand) == 0 {
		return nil
	}
	return cand[0]
}

// ---------------------------------------------------------------------------
// the check

func checkC13(c *Check) {
	lockBalanceRule(c, "C13", pObfs)
	p := c.P
	a := c13resolve(c)
	if a == nil {
		return
	}
	la := p.Locks()
	for _, f := range []*ssa.Function{a.wrapFn, a.ctor, a.obf, a.deobf, a.connCtor, a.connRead, a.connWrt} {
		c.Saw(fnName(f))
	}

	// ---- R1 hash entry point census
	nHash := 0
	for _, fn := range a.obfsFns {
		for _, ci := range callsIn(fn, func(ci ssa.CallInstruction) bool {
			return c13calleePkg(ci) == c13blake
		}) {
			nHash++
			name := staticCallee(ci).Name()
			c.Req(name == "Sum256", "C13.R1:hash-callee:"+fnName(fn), c13r1, p.InstrPos(ci), "the keystream hash is blake2b."+name+", not blake2b.Sum256 (BLAKE2b-256 of the key input)")
		}
	}
	c.Floor("C13.R1:hash-callee", nHash, 1)

	st := &c13state{c: c, a: a, la: la}
	st.method(a.obf, true)
	st.method(a.deobf, false)
	c.Floor("C13.R1:xor-store", st.nXor, 2)
	if !st.keyShared {
		c.Floor("C13.R1:hash-input", st.nHashIn, 2)
	}
	st.constructor()
	st.bufferR2()
	st.wrapperWrite()
	st.wrapperRead()
	st.propagation()
}

type c13state struct {
	c  *Check
	a  *c13anchors
	la *LockAnalysis

	nXor, nHashIn int
	keyShared     bool       // the XOR key was traced to receiver-owned storage (reported under R2)
	fBuf, fPSK    *types.Var // key-input buffer and PSK fields (discovered at the hash call)
	lk            *types.Var // mutex held at the hash call
	hashFns       map[*ssa.Function]bool
}

const c13r1 = "C13.R1 wire format: 8 salt bytes, then payload byte j XOR key[j mod 32] with key = BLAKE2b-256(PSK || salt) taken over the whole key-input buffer"
const c13r2 = "C13.R2 the shared key-input buffer is hashed and refilled only inside one critical section of the obfuscator's mutex and the key leaves it by value"
const c13r3 = "C13.R3 the socket wrapper reports the original packet's byte count, sends/deobfuscates exactly the obfuscated bytes under its buffer mutex, and re-reads instead of surfacing a rejected packet"
const c13r4 = "C13.R4 keys shorter than 4 bytes are refused and the refusal reaches every caller"

// the wire datagram is 8 salt bytes longer than the payload the caller sized
// its buffer for, so the receive buffer must not be (a slice of) the caller's
const c13r3buf = "C13.R3 the wrapper's ReadFrom receives the wire datagram (payload + 8 salt bytes) into storage of its own, never into the caller's buffer p or a slice of it: p is sized for the payload, so a read into p truncates every datagram with len(payload) <= len(p) < len(payload)+8"

// keyOrigin follows the storage the XOR key byte is read from back to the
// value it holds.  kind: "hash" (direct result of a blake2b call, val = the
// call), "field" (receiver-owned storage), "other".
func (s *c13state) keyOrigin(x ssa.Value, e *c13env, depth int) (kind string, val ssa.Value, env *c13env, why string) {
	for i := 0; i < 32; i++ {
		x, e = e.subst(x)
		switch v := x.(type) {
		case *ssa.Alloc:
			sv := singleStore(v)
			if sv == nil {
				return "other", v, e, "the key is assembled in local storage (" + v.Comment + ") instead of being the hash result itself"
			}
			x = sv
			continue
		case *ssa.Slice:
			x = v.X
			continue
		case *ssa.UnOp:
			if v.Op == token.MUL {
				if fa, f := c13fieldLoad(v); fa != nil && f != nil {
					return "field", v, e, "the key is read from field " + f.Name() + " (storage shared between goroutines)"
				}
				if al, ok := v.X.(*ssa.Alloc); ok {
					x = al
					continue
				}
			}
			return "other", v, e, "unrecognised key source " + v.String()
		case *ssa.FieldAddr:
			f := structField(v.X.Type(), v.Field)
			return "field", v, e, "the key is read from field " + f.Name() + " (storage shared between goroutines)"
		case *ssa.Call:
			f := staticCallee(v)
			if f == nil {
				return "other", v, e, "key produced by a dynamic call"
			}
			if pk := fnPkg(f); pk != nil && pk.Pkg.Path() == c13blake {
				return "hash", v, e, ""
			}
			if !s.a.inObfs(f) || depth > 3 || e.onStack(f) {
				return "other", v, e, "key produced by " + f.String()
			}
			ne := &c13env{fn: f, call: v, up: e}
			var rk string
			var rv ssa.Value
			var re *c13env
			var rw string
			n := 0
			allInstrs(f, func(in ssa.Instruction) {
				r, ok := in.(*ssa.Return)
				if !ok {
					return
				}
				res := retResults(r)
				if len(res) == 0 {
					return
				}
				k, vv, ee, ww := s.keyOrigin(res[0], ne, depth+1)
				n++
				if rk == "" || k != "hash" {
					rk, rv, re, rw = k, vv, ee, ww
				}
			})
			if n == 0 {
				return "other", v, e, "key function has no return"
			}
			return rk, rv, re, rw
		default:
			return "other", x, e, "unrecognised key source"
		}
	}
	return "other", x, e, "key provenance too deep"
}

// method analyses Obfuscate (isObf) or Deobfuscate.
func (s *c13state) method(M *ssa.Function, isObf bool) {
	c, p, a := s.c, s.c.P, s.a
	recv, inP, outP := M.Params[0], M.Params[1], M.Params[2]
	wireP := outP // the parameter holding the packet as it is on the wire
	if !isObf {
		wireP = inP
	}
	mname := M.Name()
	root := &c13env{fn: M}

	type hashSite struct {
		call *ssa.Call
		e    *c13env
	}
	var hashes []hashSite
	seenHash := map[*ssa.Call]bool{}

	a.walk(root, 0, func(in ssa.Instruction, e *c13env) {
		stI, ok := in.(*ssa.Store)
		if !ok {
			return
		}
		ia, ok := stI.Addr.(*ssa.IndexAddr)
		if !ok {
			return
		}
		dst := e.addrLoc(ia)
		if !dst.isParam(outP) {
			return
		}
		v, ve := e.subst(stI.Val)
		x, ok := v.(*ssa.BinOp)
		if !ok || x.Op != token.XOR {
			return
		}
		// operands: one is a byte of `in`, the other a byte of the key
		var data *c13loc
		var keyIdx ssa.Value
		var keyX ssa.Value
		var keyEnv *c13env
		for _, opnd := range []ssa.Value{x.X, x.Y} {
			ov, oe := ve.subst(opnd)
			switch o := ov.(type) {
			case *ssa.UnOp:
				if o.Op != token.MUL {
					continue
				}
				oa, ok := o.X.(*ssa.IndexAddr)
				if !ok {
					continue
				}
				l := oe.addrLoc(oa)
				if l.isParam(inP) {
					ll := l
					data = &ll
				} else {
					keyIdx, keyX, keyEnv = oa.Index, oa.X, oe
				}
			case *ssa.Index:
				keyIdx, keyX, keyEnv = o.Index, o.X, oe
			}
		}
		key := "C13.R1:" + mname + ":xor@" + fnName(e.fn)
		if data == nil || keyX == nil {
			return // not a payload XOR (e.g. some other store into out)
		}
		s.nXor++
		c.Saw("xor store in " + fnName(e.fn) + " for " + mname)
		plain, wire := data.off, dst.off
		if !isObf {
			plain, wire = dst.off, data.off
		}
		d, isC := wire.sub(plain).isConst()
		c.Req(isC && d == c13saltLen, key+":offset", c13r1, p.InstrPos(stI),
			fmt.Sprintf("wire offset minus payload offset is %s, want the constant %d (salt length)", wire.sub(plain), c13saltLen))
		// key index = payload index mod 32
		kv, ke := keyEnv.subst(keyIdx)
		mod, base, okMod := int64(0), c13lin{}, false
		if b, ok := kv.(*ssa.BinOp); ok {
			if n, isK := constInt(b.Y); isK {
				switch b.Op {
				case token.REM:
					mod, base, okMod = n, ke.lin(b.X), true
				case token.AND:
					mod, base, okMod = n+1, ke.lin(b.X), n > 0 && (n&(n+1)) == 0
				}
			}
		}
		switch {
		case !okMod:
			c.Bad(key+":key-index", c13r1, p.InstrPos(stI), "the key byte index is not `payload index mod "+fmt.Sprint(c13keyLen)+"`")
		default:
			c.Req(mod == c13keyLen && base.equal(plain), key+":key-index", c13r1, p.InstrPos(stI),
				fmt.Sprintf("payload byte %s is combined with key[(%s) mod %d], want key[payload index mod %d]", plain, base, mod, c13keyLen))
		}
		// key provenance
		kind, val, henv, why := s.keyOrigin(keyX, keyEnv, 0)
		c.Req(kind != "field", "C13.R2:"+mname+":key-by-value", c13r2, p.InstrPos(stI), why+": another goroutine can overwrite it after the unlock while this packet is still being XORed")
		switch kind {
		case "hash":
			hc := val.(*ssa.Call)
			c.OK("C13.R1:"+mname+":key-origin", c13r1, p.InstrPos(hc))
			if !seenHash[hc] {
				seenHash[hc] = true
				hashes = append(hashes, hashSite{hc, henv})
			}
		case "field":
			// reported under R2 above; the hash input cannot be tied to this
			// key any more, so R1's hash-input floor is not applicable
			s.keyShared = true
		default:
			c.Bad("C13.R1:"+mname+":key-origin", c13r1, p.InstrPos(stI), "the XOR key is not the direct result of blake2b.Sum256: "+why)
		}
	})

	// hash input: whole buffer field; salt copied to offset len(PSK) from wire[0:8]
	for _, h := range hashes {
		hc, e := h.call, h.e
		key := "C13.R1:" + mname + ":hash-input"
		if staticCallee(hc).Name() != "Sum256" || len(hc.Call.Args) != 1 {
			continue // reported by the hash-callee census
		}
		s.nHashIn++
		c.Saw("hash call in " + fnName(e.fn) + " for " + mname)
		arg := hc.Call.Args[0]
		al := e.locOfSlice(arg)
		if al.root.kind != "field" || al.root.v != ssa.Value(recv) {
			// a fixed-capacity local array cannot hold PSK‖salt for every key
			// length the constructor admits (it only enforces a minimum): the
			// hash input is clipped for long keys – spec violation, not an
			// unrecognised shape
			if al.root.kind == "alloc" {
				if a, ok := al.root.v.(*ssa.Alloc); ok {
					if arr, ok := a.Type().(*types.Pointer).Elem().Underlying().(*types.Array); ok {
						c.Bad(key+":fixed-capacity", c13r1, p.InstrPos(hc), fmt.Sprintf("the hash input is built in a fixed %d-byte local array while the key length is only bounded from below: PSK‖salt longer than %d bytes is truncated, so the key is no longer BLAKE2b-256(PSK‖salt)", arr.Len(), arr.Len()))
						continue
					}
				}
			}
			c.Undecided(key, c13r1, p.InstrPos(hc), "the hash input is not a buffer field of the obfuscator (shape not recognised: "+al.root.kind+")")
			continue
		}
		fBuf := al.root.f
		whole := e.lenOf(arg).equal(c13term(c13key{kind: "lenf", v: recv, f: fBuf}))
		off0, _ := al.off.isConst()
		_, offC := al.off.isConst()
		if !c.Req(offC && off0 == 0 && whole, key+":whole-buffer", c13r1, p.InstrPos(hc), "the hash does not cover the whole key-input buffer "+fBuf.Name()+" (offset "+al.off.String()+", length "+e.lenOf(arg).String()+")") {
			continue
		}
		if s.fBuf == nil {
			s.fBuf = fBuf
		} else if s.fBuf != fBuf {
			c.Bad(key+":same-buffer", c13r1, p.InstrPos(hc), "Obfuscate and Deobfuscate hash different buffers")
		}
		if s.hashFns == nil {
			s.hashFns = map[*ssa.Function]bool{}
		}
		s.hashFns[e.fn] = true
		// copies into the buffer inside the hashing function
		var copies []*ssa.Call
		var recopied []*types.Var
		allInstrs(e.fn, func(in ssa.Instruction) {
			call, ok := in.(*ssa.Call)
			if !ok || !isBuiltinCall(call, "copy") {
				return
			}
			d := e.locOfSlice(call.Call.Args[0])
			if !d.isField(recv, fBuf) {
				return
			}
			// re-copying another whole field of the receiver (the PSK) to offset
			// 0 rebuilds what the constructor already put there: not the salt copy
			if do, ok := d.off.isConst(); ok && do == 0 {
				sl := e.locOfSlice(call.Call.Args[1])
				if so, ok := sl.off.isConst(); ok && so == 0 && sl.root.kind == "field" && sl.root.v == ssa.Value(recv) && sl.root.f != fBuf &&
					e.lenOf(call.Call.Args[1]).equal(c13term(c13key{kind: "lenf", v: recv, f: sl.root.f})) {
					recopied = append(recopied, sl.root.f)
					return
				}
			}
			copies = append(copies, call)
		})
		if len(copies) != 1 {
			c.Bad(key+":salt-copy", c13r1, p.InstrPos(hc), fmt.Sprintf("%d copies into %s in %s, want exactly one (the salt)", len(copies), fBuf.Name(), fnName(e.fn)))
			continue
		}
		cp := copies[0]
		dst, src := e.locOfSlice(cp.Call.Args[0]), e.locOfSlice(cp.Call.Args[1])
		// destination offset is len(PSK field)
		var fPSK *types.Var
		if len(dst.off.t) == 1 && dst.off.c == 0 {
			for k, v := range dst.off.t {
				if k.kind == "lenf" && k.v == ssa.Value(recv) && k.f != fBuf && v == 1 {
					fPSK = k.f
				}
			}
		}
		if c.Req(fPSK != nil, key+":salt-after-psk", c13r1, p.InstrPos(cp), "the salt is copied to offset "+dst.off.String()+" of "+fBuf.Name()+", want offset len(PSK) (hash input = PSK || salt, in that order)") {
			if s.fPSK == nil {
				s.fPSK = fPSK
			} else if s.fPSK != fPSK {
				c.Bad(key+":same-psk", c13r1, p.InstrPos(cp), "Obfuscate and Deobfuscate use different PSK fields")
			}
			for _, f := range recopied {
				if f != fPSK {
					c.Bad(key+":salt-copy", c13r1, p.InstrPos(hc), "field "+f.Name()+" (not the PSK the salt is appended to) is copied to the start of "+fBuf.Name()+" before hashing")
				}
			}
		}
		// destination runs to the end of the buffer
		dstLen := e.lenOf(cp.Call.Args[0])
		c.Req(dstLen.add(dst.off).equal(c13term(c13key{kind: "lenf", v: recv, f: fBuf})), key+":salt-to-end", c13r1, p.InstrPos(cp), "the salt destination does not extend to the end of "+fBuf.Name())
		// source is wire[0:8]
		srcLen, srcLenC := e.lenOf(cp.Call.Args[1]).isConst()
		srcOff, srcOffC := src.off.isConst()
		c.Req(src.isParam(wireP) && srcOffC && srcOff == 0 && srcLenC && srcLen == c13saltLen, key+":salt-is-wire-prefix", c13r1, p.InstrPos(cp),
			fmt.Sprintf("the bytes hashed after the PSK are %s[%s : +%s], want exactly the %d salt bytes at the start of the wire packet", src.root.kind, src.off, e.lenOf(cp.Call.Args[1]), c13saltLen))
		c.Req(dominates(cp, hc), key+":salt-before-hash", c13r1, p.InstrPos(cp), "the salt copy does not precede the hash on every path")
		// R2: one critical section
		lk := c13commonMutex(s.la, a.salT, cp, hc)
		k2 := "C13.R2:" + mname + ":hash-under-lock"
		if lk == nil {
			var who []string
			for _, cs := range s.la.callers[e.fn] {
				if len(c13mutexesOf(s.la.HeldAt(cs), a.salT)) == 0 {
					who = append(who, fnName(cs.Parent()))
				}
			}
			det := "no mutex of the obfuscator is held while " + fBuf.Name() + " is refilled and hashed in " + fnName(e.fn)
			if len(who) > 0 {
				det += " (called without it from " + strings.Join(who, ", ") + ")"
			}
			c.Bad(k2, c13r2, p.InstrPos(hc), det+": a concurrent reader/writer derives its key from a mixed salt")
			continue
		}
		if s.lk == nil {
			s.lk = lk
		}
		c.Req(lk == s.lk && s.la.sameRegion(cp, hc, lk, lockW), k2, c13r2, p.InstrPos(hc), "the salt copy and the hash are not inside one critical section of "+lk.Name())
	}

	// returned lengths
	want := int64(c13saltLen)
	if !isObf {
		want = -c13saltLen
	}
	nRet := 0
	allInstrs(M, func(in ssa.Instruction) {
		r, ok := in.(*ssa.Return)
		if !ok {
			return
		}
		res := retResults(r)
		if len(res) != 1 {
			return
		}
		srcs := []ssa.Value{res[0]}
		if ph, ok := res[0].(*ssa.Phi); ok {
			srcs = ph.Edges
		}
		for _, v := range srcs {
			nRet++
			l := root.lin(v)
			k, isC := l.isConst()
			d, isD := l.sub(c13term(c13key{kind: "len", v: inP})).isConst()
			good := (isC && k == 0) || (isD && d == want)
			c.Req(good, "C13.R1:"+mname+":returns", c13r1, p.InstrPos(r), fmt.Sprintf("returns %s, want 0 or len(in)%+d (the wrapper sends / reports exactly that many bytes)", l, want))
		}
	})
	c.Floor("C13.R1:"+mname+":returns", nRet, 1)
}

// constructor: layout of the key-input buffer and the length guard.
func (s *c13state) constructor() {
	c, p, a := s.c, s.c.P, s.a
	ct := a.ctor
	env := &c13env{fn: ct, fresh: true}
	// returns that hand out an obfuscator
	var objRets []*ssa.Return
	allInstrs(ct, func(in ssa.Instruction) {
		if r, ok := in.(*ssa.Return); ok {
			if res := retResults(r); len(res) >= 1 && !isNilConst(res[0]) {
				objRets = append(objRets, r)
			}
		}
	})
	// the []byte parameter
	var psk *ssa.Parameter
	n := 0
	for _, prm := range ct.Params {
		if sl, ok := prm.Type().Underlying().(*types.Slice); ok {
			if b, ok := sl.Elem().Underlying().(*types.Basic); ok && b.Kind() == types.Uint8 {
				psk = prm
				n++
			}
		}
	}
	if n != 1 {
		c.Unres("the key parameter of " + fnName(ct))
		return
	}
	if s.fBuf != nil && s.fPSK != nil {
		var vBuf, vPSK ssa.Value
		var stBuf ssa.Instruction
		for _, fr := range fieldRefs([]*ssa.Function{ct}, s.fBuf) {
			if fr.Kind == "store" {
				vBuf, stBuf = fr.Val, fr.Instr
			}
		}
		for _, fr := range fieldRefs([]*ssa.Function{ct}, s.fPSK) {
			if fr.Kind == "store" {
				vPSK = fr.Val
			}
		}
		key := "C13.R1:ctor:layout"
		if vBuf == nil || vPSK == nil {
			c.Unres("stores of " + s.fBuf.Name() + "/" + s.fPSK.Name() + " in " + fnName(ct))
		} else {
			bv, _ := env.subst(vBuf)
			pv, _ := env.subst(vPSK)
			if ap, isCall := bv.(*ssa.Call); isCall && isBuiltinCall(ap, "append") && len(ap.Call.Args) >= 1 && func() bool {
				a0, _ := env.subst(ap.Call.Args[0])
				return a0 == ssa.Value(psk) || a0 == pv && pv == ssa.Value(psk)
			}() {
				// append onto the caller's key slice: with spare capacity the salt is
				// written behind the caller's key bytes and the hash input shares the
				// caller's storage (a later change of that storage changes the key)
				c.Bad(key+":own-storage", c13r1, p.InstrPos(stBuf), "the key-input buffer is append(<the constructor's key argument>, ...): when the argument has spare capacity the buffer aliases the caller's storage, the salt overwrites what follows the key there and later writes by the caller change PSK||salt")
			} else if _, isMake := bv.(*ssa.MakeSlice); !isMake {
				c.Undecided(key, c13r1, p.InstrPos(stBuf), "the key-input buffer is not built with make(): constructor shape not recognised")
			} else {
				d, isC := env.lenOf(bv).sub(env.lenOf(pv)).isConst()
				c.Req(isC && d == c13saltLen, key+":size", c13r1, p.InstrPos(stBuf), fmt.Sprintf("len(%s) - len(%s) = %s, want %d (room for exactly the salt after the PSK)", s.fBuf.Name(), s.fPSK.Name(), env.lenOf(bv).sub(env.lenOf(pv)), c13saltLen))
				// copy(buf[0:], PSK)
				good, det := false, "the PSK is never copied into "+s.fBuf.Name()
				allInstrs(ct, func(in ssa.Instruction) {
					call, ok := in.(*ssa.Call)
					if !ok || !isBuiltinCall(call, "copy") {
						return
					}
					dst := env.locOfSlice(call.Call.Args[0])
					if dst.root.kind != "val" || dst.root.v != bv {
						return
					}
					src := env.locOfSlice(call.Call.Args[1])
					so, soC := src.off.isConst()
					do, doC := dst.off.isConst()
					srcIsPSK := src.root.v == pv && soC && so == 0 && env.lenOf(call.Call.Args[1]).equal(env.lenOf(pv))
					// the copy happens before the object is handed out: before the
					// buffer is stored into it, or (field-wise construction) on
					// every path to a return of the object
					before := dominates(call, stBuf)
					if !before && len(objRets) > 0 {
						before = true
						for _, r := range objRets {
							before = before && dominates(call, r)
						}
					}
					if doC && do == 0 && srcIsPSK && before {
						good = true
					} else {
						det = fmt.Sprintf("copy into %s at offset %s from %s+%s: want the whole PSK at offset 0 (hash input = PSK || salt)", s.fBuf.Name(), dst.off, src.root.kind, src.off)
					}
				})
				c.Req(good, key+":psk-first", c13r1, p.InstrPos(stBuf), det)
				// the PSK is (a copy of) the caller's key
				fromParam := pv == ssa.Value(psk)
				if call, ok := pv.(*ssa.Call); ok {
					if isBuiltinCall(call, "append") && len(call.Call.Args) == 2 {
						a1, _ := env.subst(call.Call.Args[1])
						fromParam = a1 == ssa.Value(psk) && (isNilConst(call.Call.Args[0]) || func() bool { k, ok := env.lenOf(call.Call.Args[0]).isConst(); return ok && k == 0 }())
					} else if calleeIs(call, "bytes", "Clone") || calleeIs(call, "slices", "Clone") {
						a0, _ := env.subst(call.Call.Args[0])
						fromParam = a0 == ssa.Value(psk)
					}
				}
				c.Req(fromParam, key+":psk-is-key", c13r1, p.InstrPos(stBuf), "the PSK field is not (a copy of) the constructor's key argument")
			}
		}
	}

	// R4: length guard
	T := c13key{kind: "len", v: psk}
	minEdge := func(cond ssa.Value, pol bool) bool {
		lo, _, hasLo, _ := env.edgeBound(cond, pol, T, true)
		return hasLo && lo == c13pskMin
	}
	nObj := 0
	allInstrs(ct, func(in ssa.Instruction) {
		r, ok := in.(*ssa.Return)
		if !ok {
			return
		}
		res := retResults(r)
		if len(res) != 2 {
			return
		}
		if isNilConst(res[0]) {
			c.Req(!isNilConst(res[1]), "C13.R4:ctor:short-psk-error", c13r4, p.InstrPos(r), "the constructor returns (nil, nil): a refused key is not reported")
			return
		}
		nObj++
		if !c.Req(guardedBy(r, minEdge), "C13.R4:ctor:psk-min-length", c13r4, p.InstrPos(r), fmt.Sprintf("an obfuscator is returned on a path that did not cross an edge implying len(%s) >= %d exactly (keys of 1..3 bytes accepted, or 4-byte keys refused)", psk.Name(), c13pskMin)) {
			return
		}
	})
	c.Floor("C13.R4:ctor:psk-min-length", nObj, 1)
}

// contentUses checks that every use of the contents of a loaded buffer value
// holds the mutex; returns descriptions of offending uses.
func (s *c13state) contentUses(v ssa.Value, mutex *types.Var, seen map[ssa.Value]bool, bad *[]string) {
	if v == nil || seen[v] {
		return
	}
	seen[v] = true
	refs := v.Referrers()
	if refs == nil {
		return
	}
	p := s.c.P
	for _, r := range *refs {
		switch x := r.(type) {
		case *ssa.DebugRef:
			continue
		case *ssa.Slice:
			s.contentUses(x, mutex, seen, bad)
			continue
		case *ssa.Phi:
			s.contentUses(x, mutex, seen, bad)
			continue
		case *ssa.ChangeType:
			s.contentUses(x, mutex, seen, bad)
			continue
		case *ssa.IndexAddr:
			s.contentUses(x, mutex, seen, bad) // loads / stores through it are checked below
			continue
		case *ssa.Call:
			if isBuiltinCall(x, "len") || isBuiltinCall(x, "cap") {
				continue
			}
			if !s.la.Holds(x, mutex, lockW) {
				*bad = append(*bad, "call at "+p.InstrPos(x)+" without "+mutex.Name())
			}
			if f := staticCallee(x); f != nil && s.a.inObfs(f) {
				for i, arg := range x.Call.Args {
					if arg == v && i < len(f.Params) {
						s.contentUses(f.Params[i], mutex, seen, bad)
					}
				}
			}
			continue
		case *ssa.Store:
			if x.Val == v {
				*bad = append(*bad, "stored away at "+p.InstrPos(x)+" (escapes the critical section)")
				continue
			}
		case *ssa.Return:
			*bad = append(*bad, "returned at "+p.InstrPos(x)+" (escapes the critical section)")
			continue
		case *ssa.Go, *ssa.Defer, *ssa.MakeClosure, *ssa.MakeInterface, *ssa.Send, *ssa.MapUpdate:
			*bad = append(*bad, "escapes at "+p.InstrPos(r))
			continue
		}
		if !s.la.Holds(r, mutex, lockW) {
			*bad = append(*bad, "access at "+p.InstrPos(r)+" without "+mutex.Name())
		}
	}
}

// bufferDiscipline: every content use of `field` (outside the constructing
// function's fresh object) holds `mutex`.  Returns the number of functions
// with such uses.
func (s *c13state) bufferDiscipline(field, mutex *types.Var, rule, prefix string) int {
	c, p := s.c, s.c.P
	n := 0
	storedOutsideCtor := false
	for _, fr := range fieldRefs(s.a.obfsFns, field) {
		if fr.Kind == "store" {
			if al, ok := accessPath(fr.Addr).Root.(*ssa.Alloc); !ok || al.Parent() != fr.Fn {
				storedOutsideCtor = true
			}
		}
	}
	for _, fn := range s.a.obfsFns {
		var bad []string
		uses := 0
		for _, fr := range fieldRefs([]*ssa.Function{fn}, field) {
			if al, ok := accessPath(fr.Addr).Root.(*ssa.Alloc); ok && al.Parent() == fn {
				continue // fresh object, not yet shared
			}
			uses++
			switch fr.Kind {
			case "addr":
				bad = append(bad, "address of the field taken at "+p.InstrPos(fr.Instr))
			case "store":
				if !s.la.Holds(fr.Instr, mutex, lockW) {
					bad = append(bad, "replaced at "+p.InstrPos(fr.Instr)+" without "+mutex.Name())
				}
			case "load":
				if storedOutsideCtor && !s.la.Holds(fr.Instr, mutex, lockW) {
					bad = append(bad, "loaded at "+p.InstrPos(fr.Instr)+" without "+mutex.Name())
				}
				s.contentUses(fr.Val, mutex, map[ssa.Value]bool{}, &bad)
			}
		}
		if uses == 0 {
			continue
		}
		n++
		c.Saw(fnName(fn))
		c.Req(len(bad) == 0, prefix+":"+field.Name()+"@"+fnName(fn), rule, p.Pos(fn.Pos()), "shared buffer "+field.Name()+": "+strings.Join(bad, "; "))
	}
	return n
}

func (s *c13state) bufferR2() {
	if s.fBuf == nil || s.lk == nil {
		return // already reported at the hash call
	}
	n := s.bufferDiscipline(s.fBuf, s.lk, c13r2, "C13.R2:lock")
	s.c.Floor("C13.R2:lock", n, 1)
}

// findInvoke finds the unique interface-method call `recv.<field>.<method>(...)`
// in the wrapper method root.fn or in the obfs helpers it calls (the receiver is
// followed through the helpers' parameters); returns the call and the context
// it was found in.
func (a *c13anchors) findInvoke(root *c13env, method string) (*ssa.Call, *c13env) {
	var out *ssa.Call
	var oe *c13env
	n := 0
	a.walk(root, 0, func(in ssa.Instruction, e *c13env) {
		call, ok := in.(*ssa.Call)
		if !ok || !invokeIs(call, method) {
			return
		}
		fa, _ := c13fieldLoad(resolve(call.Call.Value))
		if fa == nil {
			return
		}
		if r, _ := e.subst(fa.X); r != ssa.Value(root.fn.Params[0]) {
			return
		}
		out, oe = call, e
		n++
	})
	if n != 1 {
		return nil, nil
	}
	return out, oe
}

// c13lift maps two instructions found in (possibly different) helper contexts
// to instructions of one function: the call sites in their deepest common
// context.
func c13lift(x ssa.Instruction, ex *c13env, y ssa.Instruction, ey *c13env) (ssa.Instruction, ssa.Instruction) {
	depth := func(e *c13env) int {
		n := 0
		for ; e != nil; e = e.up {
			n++
		}
		return n
	}
	var same func(a, b *c13env) bool
	same = func(a, b *c13env) bool {
		return a == b || (a != nil && b != nil && a.fn == b.fn && a.call == b.call && same(a.up, b.up))
	}
	for !same(ex, ey) && ex != nil && ey != nil {
		if depth(ex) >= depth(ey) {
			x, ex = ex.call, ex.up
		} else {
			y, ey = ey.call, ey.up
		}
	}
	return x, y
}

// c13isErr: x is, on every path, either nil or the inner conn's error errv
// (looking through φ and through results of obfs helpers), so `x != nil`
// implies `errv != nil`.
func (a *c13anchors) isErr(e *c13env, x, errv ssa.Value, depth int) bool {
	if errv == nil || depth > 6 {
		return false
	}
	v, e2 := e.subst(x)
	if v == errv {
		return true
	}
	if ph, ok := v.(*ssa.Phi); ok {
		some := false
		for _, ed := range ph.Edges {
			if isNilConst(ed) {
				continue
			}
			if !a.isErr(e2, ed, errv, depth+1) {
				return false
			}
			some = true
		}
		return some
	}
	call, idx := c13resultOf(v)
	if call == nil {
		return false
	}
	f := staticCallee(call)
	if f == nil || !a.inObfs(f) || e2.onStack(f) {
		return false
	}
	ne := &c13env{fn: f, call: call, up: e2}
	some, all := false, true
	allInstrs(f, func(in ssa.Instruction) {
		r, ok := in.(*ssa.Return)
		if !ok {
			return
		}
		res := retResults(r)
		if idx >= len(res) {
			all = false
			return
		}
		if isNilConst(res[idx]) {
			return
		}
		if a.isErr(ne, res[idx], errv, depth+1) {
			some = true
		} else {
			all = false
		}
	})
	return some && all
}

// errNonNil: the edge (cond, pol) in context e means "the inner conn's error
// is non-nil".
func (a *c13anchors) errNonNil(e *c13env, errv ssa.Value, cond ssa.Value, pol bool) bool {
	x, isNil, ok := nilTest(cond, pol)
	return ok && !isNil && a.isErr(e, x, errv, 0)
}

// c13atom decides a comparison taken with polarity pol in context e.
type c13atom func(e *c13env, cond ssa.Value, pol bool) bool

// implies: knowing that the boolean `cond` evaluated to `pol` in context e
// establishes the fact decided by atom.  Looks through negation, helper
// results bound to one return (c13env.bind), constants (an edge that cannot be
// taken with this binding establishes anything) and φ-merged `&&` / `||`
// values: each φ source must either itself imply the fact or only arrive over
// an edge that does.
func (a *c13anchors) implies(e *c13env, cond ssa.Value, pol bool, atom c13atom, depth int) bool {
	if depth > 8 {
		return false
	}
	v, e2 := e.subst(cond)
	v, pol = stripNot(v, pol)
	if v2, e3 := e2.subst(v); v2 != v {
		return a.implies(e3, v2, pol, atom, depth+1)
	}
	switch x := v.(type) {
	case *ssa.Const:
		if x.Value != nil && x.Value.Kind() == constant.Bool {
			return constant.BoolVal(x.Value) != pol
		}
	case *ssa.BinOp:
		return atom(e2, x, pol)
	case *ssa.Phi:
		for i, ed := range x.Edges {
			if a.implies(e2, ed, pol, atom, depth+1) {
				continue
			}
			pred := x.Block().Preds[i]
			if cfgEdgeGuardedBy(pred, x.Block(), func(c ssa.Value, p bool) bool { return a.implies(e2, c, p, atom, depth+1) }) {
				continue
			}
			return false
		}
		return true
	}
	return false
}

type c13site struct {
	e        *c13env
	from, to *ssa.BasicBlock // CFG edge carrying the value; to == nil: block `from` (a return)
	// a store in block `from` whose value is read in block `target`, flowing
	// only along paths that stay out of the blocks in kill (other stores)
	target *ssa.BasicBlock
	kill   map[*ssa.BasicBlock]bool
}

// guardedAt: some site on the way of a returned value is only reached over an
// edge establishing atom.
func (a *c13anchors) guardedAt(sites []c13site, atom c13atom) bool {
	for _, st := range sites {
		st := st
		pred := func(c ssa.Value, p bool) bool { return a.implies(st.e, c, p, atom, 0) }
		if srcGuarded(st.from, st.to, pred) {
			return true
		}
		if st.target != nil && st.target != st.from && !c13flowsAvoiding(st.from, st.target, st.kill, pred) {
			return true
		}
	}
	return false
}

// c13flowsAvoiding: block `to` is reachable from block `from` without crossing
// an edge accepted by pred and without entering a block in kill.
func c13flowsAvoiding(from, to *ssa.BasicBlock, kill map[*ssa.BasicBlock]bool, pred EdgePred) bool {
	seen := map[*ssa.BasicBlock]bool{from: true}
	work := []*ssa.BasicBlock{from}
	for len(work) > 0 {
		b := work[len(work)-1]
		work = work[:len(work)-1]
		for i, s := range b.Succs {
			if c, pol, ok := edgeFact(b, i); ok && pred(c, pol) {
				continue
			}
			if s == to {
				return true
			}
			if seen[s] || kill[s] {
				continue
			}
			seen[s] = true
			work = append(work, s)
		}
	}
	return false
}

// leaves enumerates the values a returned count can stand for, looking through
// φ nodes and through results of obfs helpers (one expansion per helper
// return; while a return is expanded the helper call is bound to it, so guards
// in the caller on the helper's other results are read for that return).
// sites lists the places every such value passes: φ edges and returns.
func (a *c13anchors) leaves(e *c13env, v ssa.Value, sites []c13site, seen map[ssa.Value]bool, depth int, visit func(v ssa.Value, e *c13env, sites []c13site)) {
	v, e = e.subst(v)
	with := func(s c13site) []c13site { return append(sites[:len(sites):len(sites)], s) }
	if depth < 8 {
		if ph, ok := v.(*ssa.Phi); ok {
			if seen[ph] {
				return
			}
			seen[ph] = true
			for i, ed := range ph.Edges {
				a.leaves(e, ed, with(c13site{e: e, from: ph.Block().Preds[i], to: ph.Block()}), seen, depth+1, visit)
			}
			delete(seen, ph)
			return
		}
		if u, ok := v.(*ssa.UnOp); ok && u.Op == token.MUL && !seen[u] {
			// a local variable with several reaching stores is a φ kept in memory
			if sts, ok := c13reachingStores(u); ok && len(sts) > 1 {
				seen[u] = true
				if e.ld == nil {
					e.ld = map[*ssa.UnOp]ssa.Value{}
				}
				for _, st := range sts {
					// this store's value reaches the load only along paths that
					// do not pass another store of the variable
					kill := map[*ssa.BasicBlock]bool{}
					for _, o := range sts {
						if o != st && o.Block() != st.Block() && o.Block() != u.Block() {
							kill[o.Block()] = true
						}
					}
					e.ld[u] = st.Val
					a.leaves(e, st.Val, with(c13site{e: e, from: st.Block(), kill: kill, target: u.Block()}), seen, depth+1, visit)
					delete(e.ld, u)
				}
				delete(seen, u)
				return
			}
		}
		if call, idx := c13resultOf(v); call != nil {
			if f := staticCallee(call); f != nil && a.inObfs(f) && !e.onStack(f) {
				ne := &c13env{fn: f, call: call, up: e}
				if e.bind == nil {
					e.bind = map[*ssa.Call]*c13bound{}
				}
				n := 0
				allInstrs(f, func(in ssa.Instruction) {
					r, ok := in.(*ssa.Return)
					if !ok {
						return
					}
					res := retResults(r)
					if idx >= len(res) {
						return
					}
					n++
					e.bind[call] = &c13bound{ret: r, env: ne}
					a.leaves(ne, res[idx], with(c13site{e: ne, from: r.Block()}), seen, depth+1, visit)
					delete(e.bind, call)
				})
				if n > 0 {
					return
				}
			}
		}
	}
	visit(v, e, sites)
}

func (s *c13state) wrapperWrite() {
	c, p, a := s.c, s.c.P, s.a
	fn := a.connWrt
	env := &c13env{fn: fn}
	if len(fn.Params) != 3 {
		c.Unres("WriteTo(p, addr) of " + a.connT.Obj().Name())
		return
	}
	recv, pP, addrP := fn.Params[0], fn.Params[1], fn.Params[2]
	obfCall, oe := a.findInvoke(env, "Obfuscate")
	inner, ie := a.findInvoke(env, "WriteTo")
	if obfCall == nil || inner == nil {
		c.Unres("the Obfuscate and inner WriteTo calls in " + fnName(fn) + " (or its helpers)")
		return
	}
	c.Saw(fnName(obfCall.Parent()))
	c.Saw(fnName(inner.Parent()))
	// payload
	a0, _ := oe.subst(obfCall.Call.Args[0])
	wb := oe.locOfSlice(obfCall.Call.Args[1])
	if wb.root.kind != "field" || wb.root.v != ssa.Value(recv) {
		c.Undecided("C13.R3:WriteTo:payload", c13r3, p.InstrPos(obfCall), "Obfuscate's output is not a buffer field of the wrapper (shape not recognised)")
		return
	}
	fWB := wb.root.f
	sent := ie.locOfSlice(inner.Call.Args[0])
	so, soC := sent.off.isConst()
	wo, woC := wb.off.isConst()
	a1, _ := ie.subst(inner.Call.Args[1])
	good := a0 == ssa.Value(pP) && woC && wo == 0 && sent.isField(recv, fWB) && soC && so == 0 &&
		ie.lenOf(inner.Call.Args[0]).equal(c13term(c13key{kind: "val", v: obfCall}))
	c.Req(good, "C13.R3:WriteTo:payload", c13r3, p.InstrPos(inner),
		fmt.Sprintf("the inner WriteTo must send %s[:nn] where nn = Obfuscate(p, %s); it sends %s.%v[%s:+%s] of Obfuscate(%s, …)", fWB.Name(), fWB.Name(), sent.root.kind, c13fieldName(sent.root.f), sent.off, ie.lenOf(inner.Call.Args[0]), a0.Name()))
	c.Req(a1 == ssa.Value(addrP), "C13.R3:WriteTo:address", c13r3, p.InstrPos(inner), "the obfuscated packet is not sent to the caller's address")
	// one critical section (when the two calls live in different helpers: of
	// their call sites in the common caller)
	lo, li := c13lift(obfCall, oe, inner, ie)
	m := c13commonMutex(s.la, a.connT, lo, li)
	if m == nil {
		c.Bad("C13.R3:WriteTo:region", c13r3, p.InstrPos(inner), "no mutex of the wrapper is held across Obfuscate and the inner WriteTo: concurrent writers share "+fWB.Name())
	} else {
		c.Req(s.la.sameRegion(lo, li, m, lockW), "C13.R3:WriteTo:region", c13r3, p.InstrPos(inner), "Obfuscate and the inner WriteTo are not in one critical section of "+m.Name()+": another writer can overwrite "+fWB.Name()+" in between")
		n := s.bufferDiscipline(fWB, m, c13r3, "C13.R3:lock")
		c.Floor("C13.R3:lock:"+fWB.Name(), n, 1)
	}
	// byte count
	errv := extractOf(inner, 1)
	nRet := 0
	allInstrs(fn, func(in ssa.Instruction) {
		r, ok := in.(*ssa.Return)
		if !ok {
			return
		}
		res := retResults(r)
		if len(res) != 2 {
			return
		}
		ev, _ := env.subst(res[1])
		_, evPhi := ev.(*ssa.Phi)
		// the edge means: the inner write failed, or the error returned here is non-nil
		errEdge := func(e *c13env, cond ssa.Value, pol bool) bool {
			if a.errNonNil(e, errv, cond, pol) {
				return true
			}
			x, isNil, ok := nilTest(cond, pol)
			if !ok || isNil || isNilConst(ev) {
				return false
			}
			xv, _ := e.subst(x)
			return xv == ev
		}
		a.leaves(env, res[0], []c13site{{e: env, from: r.Block()}}, map[ssa.Value]bool{}, 0, func(v ssa.Value, le *c13env, sites []c13site) {
			nRet++
			l := le.lin(v)
			if l.equal(c13term(c13key{kind: "len", v: pP})) {
				c.OK("C13.R3:WriteTo:count:len(p)", c13r3, p.InstrPos(r))
				return
			}
			if k, isC := l.isConst(); isC && k == 0 {
				// 0 is fine on the inner write's error edge, or together with
				// an error of the wrapper's own making (never nil)
				okErr := a.guardedAt(sites, errEdge) || (!a.isErr(env, ev, errv, 0) && !isNilConst(ev) && !evPhi)
				c.Req(okErr, "C13.R3:WriteTo:count:zero", c13r3, p.InstrPos(r), "0 bytes reported on a path where the write may have succeeded (err == nil)")
				return
			}
			what := l.String()
			if v == ssa.Value(obfCall) {
				what = "the obfuscated length (Obfuscate's result, len(p)+8)"
			} else if tup, idx := tupleSource(v); tup == ssa.Value(inner) && idx == 0 {
				what = "the inner conn's count (obfuscated length, len(p)+8)"
			}
			c.Bad("C13.R3:WriteTo:count:other", c13r3, p.InstrPos(r), "WriteTo reports "+what+" instead of len(p): the caller sees a byte count that is not the original packet's")
		})
	})
	c.Floor("C13.R3:WriteTo:count", nRet, 1)
}

func c13fieldName(f *types.Var) string {
	if f == nil {
		return "-"
	}
	return f.Name()
}

func (s *c13state) wrapperRead() {
	c, p, a := s.c, s.c.P, s.a
	fn := a.connRead
	env := &c13env{fn: fn}
	if len(fn.Params) != 2 {
		c.Unres("ReadFrom(p) of " + a.connT.Obj().Name())
		return
	}
	recv, pP := fn.Params[0], fn.Params[1]
	inner, ie := a.findInvoke(env, "ReadFrom")
	deob, de := a.findInvoke(env, "Deobfuscate")
	if inner == nil || deob == nil {
		c.Unres("the inner ReadFrom and Deobfuscate calls in " + fnName(fn) + " (or its helpers)")
		return
	}
	c.Saw(fnName(inner.Parent()))
	c.Saw(fnName(deob.Parent()))
	innerN, errv := extractOf(inner, 0), extractOf(inner, 2)
	rb := ie.locOfSlice(inner.Call.Args[0])
	// the storage the wire datagram is received into: never the caller's p (the
	// argument is followed through locals, re-slicings and helper parameters up
	// to the wrapper method's own []byte parameter)
	callerBuf := rb.isParam(pP)
	c.Req(!callerBuf, "C13.R3:ReadFrom:buffer", c13r3buf, p.InstrPos(inner),
		fmt.Sprintf("the inner %s in %s receives the wire datagram (payload + %d salt bytes) straight into the caller's buffer %s (offset %s): a caller buffer with len(payload) <= len(%s) < len(payload)+%d makes the socket truncate the datagram, and ReadFrom returns a cut payload with a nil error",
			inner.Call.Method.Name(), fnName(inner.Parent()), c13saltLen, pP.Name(), rb.off, pP.Name(), c13saltLen))
	if callerBuf {
		return
	}
	if rb.root.kind != "field" || rb.root.v != ssa.Value(recv) || innerN == nil {
		c.Undecided("C13.R3:ReadFrom:input", c13r3, p.InstrPos(inner), "the inner read does not fill a buffer field of the wrapper (shape not recognised)")
		return
	}
	fRB := rb.root.f
	in0 := de.locOfSlice(deob.Call.Args[0])
	io, ioC := in0.off.isConst()
	ro, roC := rb.off.isConst()
	// the output is the whole of the caller's p (p itself or a full re-slicing)
	out := de.locOfSlice(deob.Call.Args[1])
	oo, ooC := out.off.isConst()
	outP := out.isParam(pP) && ooC && oo == 0 && de.lenOf(deob.Call.Args[1]).equal(c13term(c13key{kind: "len", v: pP}))
	// the input's length is the inner read's count, possibly handed back by the
	// obfs helper that performs the read (every return of the helper)
	lenIsN := de.lenOf(deob.Call.Args[0]).equal(c13term(c13key{kind: "val", v: innerN}))
	if sv, se := de.subst(deob.Call.Args[0]); !lenIsN {
		if sl, ok := sv.(*ssa.Slice); ok && sl.High != nil && (sl.Low == nil || isConstInt(sl.Low, 0)) {
			nLeaf, nOther := 0, 0
			a.leaves(se, sl.High, nil, map[ssa.Value]bool{}, 0, func(v ssa.Value, _ *c13env, _ []c13site) {
				if v == innerN {
					nLeaf++
				} else {
					nOther++
				}
			})
			lenIsN = nLeaf > 0 && nOther == 0
		}
	}
	good := in0.isField(recv, fRB) && ioC && roC && io == ro && lenIsN && outP
	c.Req(good, "C13.R3:ReadFrom:input", c13r3, p.InstrPos(deob),
		fmt.Sprintf("Deobfuscate must get %s[:n] of the inner read and the caller's p; it gets %s.%s[%s:+%s]", fRB.Name(), in0.root.kind, c13fieldName(in0.root.f), in0.off, de.lenOf(deob.Call.Args[0])))
	li, ld := c13lift(inner, ie, deob, de)
	m := c13commonMutex(s.la, a.connT, li, ld)
	if m == nil {
		c.Bad("C13.R3:ReadFrom:region", c13r3, p.InstrPos(deob), "no mutex of the wrapper is held across the inner ReadFrom and Deobfuscate: concurrent readers share "+fRB.Name())
	} else {
		c.Req(s.la.sameRegion(li, ld, m, lockW), "C13.R3:ReadFrom:region", c13r3, p.InstrPos(deob), "the inner ReadFrom and Deobfuscate are not in one critical section of "+m.Name()+": another reader can overwrite "+fRB.Name()+" in between")
		n := s.bufferDiscipline(fRB, m, c13r3, "C13.R3:lock")
		c.Floor("C13.R3:lock:"+fRB.Name(), n, 1)
	}
	// returns: the facts an edge may establish, decided in the context (wrapper
	// method or helper) the edge belongs to
	errEdge := func(e *c13env, cond ssa.Value, pol bool) bool { return a.errNonNil(e, errv, cond, pol) }
	tDeob := c13key{kind: "val", v: deob}
	tRaw := c13key{kind: "val", v: innerN}
	accepted := func(e *c13env, cond ssa.Value, pol bool) bool {
		if errEdge(e, cond, pol) {
			return true
		}
		lo, _, hasLo, _ := e.edgeBound(cond, pol, tDeob, true)
		return hasLo && lo >= 1
	}
	rawOK := func(e *c13env, cond ssa.Value, pol bool) bool {
		if errEdge(e, cond, pol) {
			return true
		}
		_, hi, _, hasHi := e.edgeBound(cond, pol, tRaw, false)
		return hasHi && hi <= 0
	}
	nRet := 0
	allInstrs(fn, func(in ssa.Instruction) {
		r, ok := in.(*ssa.Return)
		if !ok {
			return
		}
		res := retResults(r)
		if len(res) != 3 {
			return
		}
		a.leaves(env, res[0], []c13site{{e: env, from: r.Block()}}, map[ssa.Value]bool{}, 0, func(v ssa.Value, le *c13env, sites []c13site) {
			nRet++
			switch {
			case v == ssa.Value(deob):
				c.Req(a.guardedAt(sites, accepted), "C13.R3:ReadFrom:return:deobfuscated", c13r3, p.InstrPos(r),
					"a return of Deobfuscate's count is reachable without crossing `n > 0` or `err != nil`: a rejected packet surfaces to QUIC as a 0-byte read instead of being skipped")
			case v == innerN:
				c.Req(a.guardedAt(sites, rawOK), "C13.R3:ReadFrom:return:raw", c13r3, p.InstrPos(r),
					"the inner conn's byte count (obfuscated length) is returned on a path where n > 0 and err == nil")
			case isConstInt(v, 0):
				c.Req(a.guardedAt(sites, errEdge), "C13.R3:ReadFrom:return:zero", c13r3, p.InstrPos(r), "a 0-byte read is returned with a nil error instead of reading the next packet")
			default:
				c.Bad("C13.R3:ReadFrom:return:other", c13r3, p.InstrPos(r), "ReadFrom returns a count that is neither Deobfuscate's result nor the inner conn's non-positive count: "+le.lin(v).String())
			}
		})
	})
	c.Floor("C13.R3:ReadFrom:return", nRet, 1)
}

// propagation: every repo call site of the constructor chain uses the result
// only on the err == nil edge and reports a non-nil error otherwise.
func (s *c13state) propagation() {
	c, p, a := s.c, s.c.P, s.a
	chain := map[*ssa.Function]bool{a.ctor: true, a.wrapFn: true}
	// obfs functions that wrap the chain (Gecko) – to a fixed point
	for changed := true; changed; {
		changed = false
		for _, fn := range a.obfsFns {
			if chain[fn] || fn.Signature.Results().Len() != 2 {
				continue
			}
			for range callsIn(fn, func(ci ssa.CallInstruction) bool { f := staticCallee(ci); return f != nil && chain[f] }) {
				if !chain[fn] {
					chain[fn] = true
					changed = true
				}
			}
		}
	}
	n := 0
	for _, fn := range p.RepoFns {
		for _, ci := range callsIn(fn, func(ci ssa.CallInstruction) bool {
			f := staticCallee(ci)
			return f != nil && chain[f] && f != fn
		}) {
			call, ok := ci.(*ssa.Call)
			if !ok {
				continue
			}
			if tt, isT := call.Type().(*types.Tuple); !isT || tt.Len() != 2 {
				continue
			}
			n++
			c.Saw(fnName(fn))
			key := "C13.R4:propagate:" + fnName(fn) + "→" + staticCallee(call).Name()
			errv := extractOf(call, 1)
			obj := extractOf(call, 0)
			okEdge := func(cond ssa.Value, pol bool) bool {
				x, isNil, ok := nilTest(cond, pol)
				return ok && isNil && errv != nil && resolve(x) == errv
			}
			good := true
			where := p.InstrPos(call)
			if obj != nil {
				for _, r := range *obj.Referrers() {
					if _, isDbg := r.(*ssa.DebugRef); isDbg {
						continue
					}
					if !guardedBy(r, okEdge) {
						good = false
						where = p.InstrPos(r)
					}
				}
			}
			c.Req(good, key, c13r4, where, "the result of "+staticCallee(call).Name()+" is used on a path that did not cross its `err == nil` edge (a refused short key yields a nil obfuscator / unwrapped socket)")
			// and the error edge reports a non-nil error
			if errv != nil && fn.Signature.Results().Len() >= 1 {
				allInstrs(fn, func(in ssa.Instruction) {
					r, ok := in.(*ssa.Return)
					if !ok || guardedBy(r, okEdge) || !reachableAfter(call, r) {
						return
					}
					res := retResults(r)
					if len(res) == 0 {
						return
					}
					last := res[len(res)-1]
					if _, isErr := last.Type().Underlying().(*types.Interface); !isErr {
						return
					}
					c.Req(!isNilConst(last), key+":error-reported", c13r4, p.InstrPos(r), "the refusal is swallowed: a nil error is returned on the failure edge")
				})
			}
		}
	}
	// pinned tree: 6 sites (ctor, Gecko, 2 × client, 2 × server); merging the app
	// call sites into one helper or inlining the constructor must not trip it
	c.Floor("C13.R4:propagate", n, 2)
}

package main

import (
	"bufio"
	"bytes"
	"encoding/json"
	"fmt"
	"go/token"
	"go/types"
	"os"
	"os/exec"
	"path/filepath"
	"regexp"
	"sort"
	"strconv"
	"strings"

	"golang.org/x/tools/go/ssa"
)

func init() {
	register(&propDef{
		ID:        "C03",
		Run:       checkC03,
		Technique: "static analysis: enumeration of every potentially panicking construct (index/slice not proven by the Go compiler's bounds-check elimination, integer division, unchecked type assertion, explicit panic, rand.Intn) in repository code reachable from peer-facing entry points (VTA call graph); each discharged by a linear-inequality prover over edge-dominating guards, or by a reviewed justification-table entry",
		Explanation: "Scope = repository functions reachable (VTA call graph) from the peer-facing decoders and handlers (protocol readers, fragmentation, server/client UDP paths, request hooks and the QUIC/TLS/HTTP sniffer, obfuscators, hole-punch packet codec, STUN parsing, speedtest, SOCKS5/HTTP outbound reply parsing). In that scope every index/slice expression that the Go compiler's prove pass could not discharge (go build -gcflags=-d=ssa/check_bce/debug=1, rebuilt from the working tree), every integer division/modulo with a non-constant divisor, every type assertion without comma-ok, every explicit panic, every make with a non-constant length and every rand.Intn-style call is an obligation. R1 an obligation is discharged when hv's prover derives the required inequality (0 <= i < len, lo <= hi <= cap, divisor >= 1, n >= 1) as a non-negative combination of the guards on CFG edges that dominate the site plus definitional facts (type ranges, len/cap, append/Clone lengths, masks, modulo, copy/Read counts, φ and min/max case split, constant lower bounds of repository callees, constructor-established length relations between sibling fields, and the reviewed axioms of hv/tables/c03.json about library / data invariants); R3 when the goal only follows under a precondition over the function's own parameters, that precondition is proved at every call site of the function (only for functions all of whose callers are inside the repository; lifted at most twice); R2 otherwise the site must be covered by a reviewed justification (hv/tables/c03.json: a whole writer-side / library-contract function, or one site by its structural key, each with a reason); anything else is reported as a violation naming the site and the missing bound.",
		NotDecided: []string{
			"panics inside third-party decoders (utls, pion/stun, txthinking/socks5, quic-go) and the standard library",
			"run-time panics that are not site-local: nil dereference, nil-map write, closed-channel operations, out-of-memory, stack exhaustion, concurrent map access",
			"arithmetic sufficiency of the caller contracts recorded in the justification table (human review, listed in the evidence as trusted)",
			"integer overflow in index arithmetic (sums of lengths and protocol-bounded values are assumed to stay below 2^63)",
		},
		Assumptions: []string{
			"the Go compiler's bounds-check-elimination report is sound (a site it does not list cannot fail its bounds check)",
			"two loads of the same field path with no store to that field on any path between them yield the same value (no concurrent mutation of parser-local state)",
			"sums of lengths / bounded protocol values do not overflow 63 bits",
		},
	})
}

// ---------------------------------------------------------------------------
// compiler BCE report

var bceLine = regexp.MustCompile(`^(.+?):(\d+):(\d+): Found (IsInBounds|IsSliceInBounds)`)

// bceReport runs the compiler with the bounds-check debug flag over the three
// modules (from the working tree) and returns the set of "file:line:col".
func bceReport(p *Prog) (map[string]string, error) {
	work, err := ensureWork()
	if err != nil {
		return nil, err
	}
	out := map[string]string{}
	for _, mod := range []string{"core", "extras", "app"} {
		// -trimpath keeps the directory out of the build cache key, so that scratch copies of the
		// repository (selftest, cross-checks) share cache entries instead of adding ~200 MB each
		cmd := exec.Command("go", "build", "-trimpath", "-gcflags=-d=ssa/check_bce/debug=1", "./...")
		cmd.Dir = filepath.Join(repoRoot, mod)
		cmd.Env = goEnv(p.Cfg, work)
		var buf bytes.Buffer
		cmd.Stdout = &buf
		cmd.Stderr = &buf
		runErr := cmd.Run()
		sc := bufio.NewScanner(&buf)
		sc.Buffer(make([]byte, 1<<20), 1<<20)
		n := 0
		for sc.Scan() {
			m := bceLine.FindStringSubmatch(sc.Text())
			if m == nil {
				continue
			}
			file := m[1]
			// with -trimpath the compiler names files by import path
			for _, mp := range [][2]string{{modCore, "core"}, {modExtras, "extras"}, {modApp, "app"}} {
				if strings.HasPrefix(file, mp[0]+"/") {
					file = filepath.Join(repoRoot, mp[1], strings.TrimPrefix(file, mp[0]+"/"))
				}
			}
			if !filepath.IsAbs(file) {
				file = filepath.Join(repoRoot, mod, file)
			}
			out[file+":"+m[2]+":"+m[3]] = m[4]
			n++
		}
		if runErr != nil && n == 0 {
			return nil, fmt.Errorf("go build (bce) in %s: %v: %s", mod, runErr, lastLines(buf.String(), 3))
		}
	}
	return out, nil
}

// ---------------------------------------------------------------------------
// scope

type c03Entry struct{ pkg, name string }

var c03Entries = []c03Entry{
	{pProtocol, "ReadTCPRequest"}, {pProtocol, "ReadTCPResponse"}, {pProtocol, "ParseUDPMessage"},
	{pProtocol, "(*UDPMessage).Serialize"}, {pProtocol, "WriteTCPRequest"}, {pProtocol, "WriteTCPResponse"},
	{pFrag, "FragUDPMessage"}, {pFrag, "(*Defragger).Feed"},
	{pServer, "(*udpSessionManager).feed"}, {pServer, "(*udpSessionEntry).Feed"}, {pServer, "(*udpSessionEntry).receiveLoop"}, {pServer, "sendMessageAutoFrag"},
	{pServer, "(*udpIOImpl).ReceiveMessage"}, {pServer, "(*udpIOImpl).SendMessage"},
	{pServer, "(*h3sHandler).ServeHTTP"}, {pServer, "(*h3sHandler).ProxyStreamHijacker"}, {pServer, "(*h3sHandler).handleTCPRequest"},
	{pClient, "(*udpSessionManager).run"}, {pClient, "(*udpSessionManager).feed"}, {pClient, "(*udpConn).Receive"}, {pClient, "(*udpConn).Send"},
	{pClient, "(*clientImpl).TCP"}, {pClient, "(*tcpConn).Read"}, {pClient, "(*clientImpl).connect"},
	{pSniff, "(*Sniffer).TCP"}, {pSniff, "(*Sniffer).UDP"}, {pSniff, "(*Sniffer).Check"},
	{pSniffQUIC, "ReadCryptoPayload"},
	{pObfs, "(*obfsPacketConn).ReadFrom"}, {pObfs, "(*obfsPacketConn).WriteTo"},
	{pObfs, "(*geckoPacketConn).ReadFrom"}, {pObfs, "(*geckoPacketConn).WriteTo"},
	{pRealm, "DecodePunchPacket"}, {pRealm, "EncodePunchPacket"}, {pRealm, "(*PunchPacketConn).ReadFrom"}, {pRealm, "parseSTUNBindingResponse"},
	{pSpeedtest, "server"},
	{pUtils, "(*QStream).Read"},
}

// optional entries (resolved when present; absence is not an error)
var c03Optional = []c03Entry{
	{pSpeedtest, "(*Client).Download"}, {pSpeedtest, "(*Client).Upload"},
	{pOutbounds, "(*socks5UDPConn).ReadFrom"}, {pOutbounds, "(*socks5UDPConn).WriteTo"},
	{pRealm, "(*ServerPuncher).dispatch"}, {pRealm, "(*PunchPacketConn).handlePunchPacket"},
	{pObfs, "(*geckoPacketConn).handleInbound"},
	// reachable from the gecko ReadFrom / WriteTo entries anyway; named here only so that a tree where the
	// call graph loses them still covers them
	{pObfs, "decodeFrame"}, {pObfs, "encodeFrame"},
}

func c03Scope(c *Check) map[*ssa.Function]bool {
	p := c.P
	scope := map[*ssa.Function]bool{}
	var work []*ssa.Function
	push := func(fn *ssa.Function) {
		if fn == nil || scope[fn] || !p.IsRepoFn(fn) {
			return
		}
		// the command-line front end (flag parsing, printing) is not peer-facing
		if pk := fnPkg(fn); pk != nil && strings.HasPrefix(pk.Pkg.Path(), pAppCmd) {
			return
		}
		scope[fn] = true
		work = append(work, fn)
	}
	n := 0
	for _, e := range c03Entries {
		fn := p.Fn(e.pkg, e.name)
		if fn == nil {
			c.Unres("C03 entry point " + e.pkg + "." + e.name)
			continue
		}
		n++
		push(fn)
	}
	for _, e := range c03Optional {
		push(p.Fn(e.pkg, e.name))
	}
	// every implementation of the hook / obfuscator / congestion interfaces
	for _, it := range []struct{ pkg, name string }{{pServer, "RequestHook"}, {pObfs, "obfuscator"}} {
		if nt := p.Named(it.pkg, it.name); nt != nil {
			if iface, ok := nt.Underlying().(*types.Interface); ok {
				for _, impl := range p.Implementations(iface) {
					for i := 0; i < iface.NumMethods(); i++ {
						push(p.MethodOf(impl, iface.Method(i).Name()))
					}
				}
			}
		}
	}
	cg := p.VTA()
	for len(work) > 0 {
		fn := work[len(work)-1]
		work = work[:len(work)-1]
		for _, an := range fn.AnonFuncs {
			push(an)
		}
		if node := cg.Nodes[fn]; node != nil {
			for _, e := range node.Out {
				if e.Callee != nil {
					push(e.Callee.Func)
				}
			}
		}
	}
	c.Floor("C03.scope:entries", n, len(c03Entries))
	return scope
}

// ---------------------------------------------------------------------------
// structural site keys (for the justification table; never line numbers)

func exprKey(v ssa.Value, depth int) string {
	if v == nil {
		return ""
	}
	if depth > 6 {
		return "…"
	}
	v = resolve(v)
	switch x := v.(type) {
	case *ssa.Parameter:
		for i, pr := range x.Parent().Params {
			if pr == x {
				return fmt.Sprintf("p%d", i)
			}
		}
		return "p?"
	case *ssa.FreeVar:
		return "fv:" + x.Name()
	case *ssa.Const:
		if x.Value == nil {
			return "nil"
		}
		return x.Value.ExactString()
	case *ssa.BinOp:
		return "(" + exprKey(x.X, depth+1) + x.Op.String() + exprKey(x.Y, depth+1) + ")"
	case *ssa.UnOp:
		if x.Op == token.MUL {
			if fa, ok := x.X.(*ssa.FieldAddr); ok {
				return exprKey(fa.X, depth+1) + "." + structField(fa.X.Type(), fa.Field).Name()
			}
			if g, ok := x.X.(*ssa.Global); ok {
				return "g:" + g.Name()
			}
			return "*" + exprKey(x.X, depth+1)
		}
		return x.Op.String() + exprKey(x.X, depth+1)
	case *ssa.FieldAddr:
		return "&" + exprKey(x.X, depth+1) + "." + structField(x.X.Type(), x.Field).Name()
	case *ssa.Field:
		return exprKey(x.X, depth+1) + "." + structField(x.X.Type(), x.Field).Name()
	case *ssa.Convert:
		return types.TypeString(x.Type(), func(*types.Package) string { return "" }) + "(" + exprKey(x.X, depth+1) + ")"
	case *ssa.Call:
		name := "call"
		if b, ok := x.Call.Value.(*ssa.Builtin); ok {
			name = b.Name()
		} else if f := staticCallee(x); f != nil {
			name = f.Name()
		} else if x.Call.IsInvoke() {
			name = x.Call.Method.Name()
		}
		var as []string
		for _, a := range x.Call.Args {
			as = append(as, exprKey(a, depth+1))
		}
		return name + "(" + strings.Join(as, ",") + ")"
	case *ssa.Extract:
		return exprKey(x.Tuple, depth+1) + "#" + strconv.Itoa(x.Index)
	case *ssa.Slice:
		return exprKey(x.X, depth+1) + "[" + exprKey(x.Low, depth+1) + ":" + exprKey(x.High, depth+1) + "]"
	case *ssa.Phi:
		return "φ"
	case *ssa.Alloc:
		return "local"
	case *ssa.MakeSlice:
		return "make(" + exprKey(x.Len, depth+1) + ")"
	case *ssa.IndexAddr:
		return "&" + exprKey(x.X, depth+1) + "[" + exprKey(x.Index, depth+1) + "]"
	case *ssa.Lookup:
		return exprKey(x.X, depth+1) + "[" + exprKey(x.Index, depth+1) + "]"
	case *ssa.Global:
		return "g:" + x.Name()
	}
	return strings.TrimPrefix(fmt.Sprintf("%T", v), "*ssa.")
}

type c03Site struct {
	fn   *ssa.Function
	in   ssa.Instruction
	kind string // bounds | div | assert | panic | rand | make
	key  string
}

func c03SiteKey(in ssa.Instruction) (kind, key string) {
	switch x := in.(type) {
	case *ssa.IndexAddr:
		return "bounds", exprKey(x.X, 0) + "[" + exprKey(x.Index, 0) + "]"
	case *ssa.Index:
		return "bounds", exprKey(x.X, 0) + "[" + exprKey(x.Index, 0) + "]"
	case *ssa.Lookup:
		return "bounds", exprKey(x.X, 0) + "[" + exprKey(x.Index, 0) + "]"
	case *ssa.Slice:
		k := exprKey(x.X, 0) + "[" + exprKey(x.Low, 0) + ":" + exprKey(x.High, 0)
		if x.Max != nil {
			k += ":" + exprKey(x.Max, 0)
		}
		return "bounds", k + "]"
	case *ssa.SliceToArrayPointer:
		return "bounds", "array(" + exprKey(x.X, 0) + ")"
	case *ssa.BinOp:
		return "div", exprKey(x.X, 0) + x.Op.String() + exprKey(x.Y, 0)
	case *ssa.TypeAssert:
		return "assert", exprKey(x.X, 0) + ".(" + types.TypeString(x.AssertedType, func(*types.Package) string { return "" }) + ")"
	case *ssa.Panic:
		return "panic", "panic(" + exprKey(x.X, 0) + ")"
	case *ssa.MakeSlice:
		return "make", "make(" + exprKey(x.Len, 0) + ")"
	case *ssa.Call:
		if f := staticCallee(x); f != nil {
			return "rand", f.Name() + "(" + exprKey(x.Call.Args[len(x.Call.Args)-1], 0) + ")"
		}
	}
	return "other", fmt.Sprintf("%T", in)
}

// ---------------------------------------------------------------------------
// justification table

type c03Just struct {
	Fn     string `json:"fn"`
	Kind   string `json:"kind"`
	Site   string `json:"site"`
	Reason string `json:"reason"`
}

func tablesDir() string {
	if d := os.Getenv("HV_TABLES"); d != "" {
		return d
	}
	return filepath.Join("/verif", "hv", "tables")
}

// c03Table: reviewed justifications (site-level) and function contracts
// (preconditions over the parameters, verified at every call site inside the
// repository and then available to the prover inside the function).
type c03Table struct {
	Axioms    []linAxiom `json:"axioms"`
	Justified []c03Just  `json:"justified"`
	just      map[string]c03Just
}

// lookup: exact site entry, or a function-level entry (site "*", kind exact or "*").
func (t *c03Table) lookup(fn, kind, site string) (c03Just, bool) {
	for _, k := range []string{fn + "|" + kind + "|" + site, fn + "|" + kind + "|*", fn + "|*|*"} {
		if j, ok := t.just[k]; ok {
			return j, true
		}
	}
	return c03Just{}, false
}

// fnNames: the distinct function names the justifications mention.
func (t *c03Table) fnNames() []string {
	seen := map[string]bool{}
	var out []string
	for _, j := range t.Justified {
		if !seen[j.Fn] {
			seen[j.Fn] = true
			out = append(out, j.Fn)
		}
	}
	return out
}

// c03Lifter verifies a precondition over a function's parameters at every call
// site of that function (all of which must be visible: the function is not
// exported outside the repository and never used as a value).
type c03Lifter struct {
	c       *Check
	p       *Prog
	escaped map[*ssa.Function]bool
	provers map[*ssa.Function]*linProver
	memo    map[string]bool
	nSites  int
	prefix  string // rule id the call-site obligations are recorded under
}

func newC03Lifter(c *Check) *c03Lifter {
	l := &c03Lifter{c: c, p: c.P, prefix: "C03.R3", escaped: map[*ssa.Function]bool{}, provers: map[*ssa.Function]*linProver{}, memo: map[string]bool{}}
	for _, fn := range c.P.RepoFns {
		allInstrs(fn, func(in ssa.Instruction) {
			for _, op := range in.Operands(nil) {
				f, ok := (*op).(*ssa.Function)
				if !ok {
					continue
				}
				if ci, isCall := in.(ssa.CallInstruction); isCall && ci.Common().Value == ssa.Value(f) {
					continue
				}
				l.escaped[f] = true
			}
		})
	}
	return l
}

func (l *c03Lifter) liftable(fn *ssa.Function) bool {
	if fn.Parent() != nil || l.escaped[fn] || fn.Object() == nil {
		return false
	}
	pk := fnPkg(fn)
	if pk == nil {
		return false
	}
	// every caller must be inside the repository: unexported, or living in an internal package
	if fn.Object().Exported() && !strings.Contains(pk.Pkg.Path(), "/internal/") {
		return false
	}
	if recv := fn.Signature.Recv(); recv != nil && fn.Object().Exported() {
		// an exported method may be reached through an interface from outside
		if !strings.Contains(pk.Pkg.Path(), "/internal/") {
			return false
		}
	}
	return true
}

func (l *c03Lifter) prover(fn *ssa.Function) *linProver {
	lp := l.provers[fn]
	if lp == nil {
		lp = newLinProver(l.p, fn)
		l.provers[fn] = lp
	}
	return lp
}

// verify: `pre <= 0` (over fn's parameters) holds at every call site of fn.
func (l *c03Lifter) verify(fn *ssa.Function, pre lin, what string, depth int) (bool, string) {
	if !l.liftable(fn) {
		return false, ""
	}
	mkey := fn.String() + "|" + pre.String()
	if v, ok := l.memo[mkey]; ok {
		return v, "precondition fails at a call site"
	}
	l.memo[mkey] = false
	node := l.p.VTA().Nodes[fn]
	if node == nil || len(node.In) == 0 {
		return false, "no call site inside the repository"
	}
	r3 := l.prefix + " a precondition over a function's parameters that the prover needs for a site inside the function holds at every call site of that function (proved there from the caller's dominating guards, or lifted once more)"
	n := 0
	for _, e := range node.In {
		if e.Site == nil || e.Caller == nil {
			return false, "called from an unknown site"
		}
		caller := e.Caller.Func
		if caller.Synthetic != "" && len(e.Caller.In) == 0 {
			continue // promoted-method / bound-method wrapper that nothing calls
		}
		if !l.p.IsRepoFn(caller) {
			return false, "called from outside the repository (" + caller.String() + ")"
		}
		if _, isGo := e.Site.(*ssa.Go); isGo {
			// arguments are evaluated at the go statement: same proof obligation
		}
		n++
		clp := l.prover(caller)
		cx := clp.newCtx(e.Site)
		sub := linConst(pre.k)
		okSub := true
		for a, coef := range pre.c {
			var prm *ssa.Parameter
			var fld *types.Var
			kind := "val"
			flp := l.prover(fn)
			switch x := a.(type) {
			case *ssa.Parameter:
				prm = x
			case *ssa.UnOp:
				prm, fld, _ = flp.paramFieldLoad(x)
			case *lenMarker:
				kind = "len"
				if x.cap {
					kind = "cap"
				}
				if q, ok := x.x.(*ssa.Parameter); ok {
					prm = q
				} else {
					prm, fld, _ = flp.paramFieldLoad(x.x)
				}
			}
			idx := -1
			for i, q := range fn.Params {
				if q == prm {
					idx = i
				}
			}
			arg := c03ArgAt(e.Site, idx)
			if prm == nil || idx < 0 || arg == nil {
				okSub = false
				break
			}
			if fld != nil {
				// the field's value at the call = a load of arg.f in the caller that dominates the
				// call with no store / may-write call in between
				arg = c03FieldAt(clp, e.Site, arg, fld)
				if arg == nil {
					okSub = false
					break
				}
			}
			switch kind {
			case "len":
				sub = sub.addScaled(clp.lenOf(arg, cx), coef)
			case "cap":
				sub = sub.addScaled(clp.capOf(arg, cx), coef)
			default:
				sub = sub.addScaled(clp.lin(arg, cx), coef)
			}
		}
		key := l.prefix + ":" + fnName(fn) + "@" + fnName(caller) + ":" + what
		pos := l.p.InstrPos(e.Site)
		if !okSub {
			if os.Getenv("HV_LIFT_DEBUG") != "" {
				fmt.Fprintf(os.Stderr, "lift %s@%s (%s): precondition %s: argument not resolvable\n", fnName(fn), fnName(caller), what, pre.String())
			}
			return false, "argument not resolvable at " + pos
		}
		ok, pres2 := clp.ProveOrLift(e.Site, sub, linConst(0))
		if !ok && os.Getenv("HV_LIFT_DEBUG") != "" {
			fmt.Fprintf(os.Stderr, "lift %s@%s (%s): %s", fnName(fn), fnName(caller), what, clp.DebugFacts(e.Site, sub, linConst(0)))
		}
		if !ok && depth < 2 {
			for _, pre2 := range pres2 {
				if ok, _ = l.verify(caller, pre2, what, depth+1); ok {
					break
				}
			}
		}
		if !ok {
			return false, fmt.Sprintf("%s does not establish it before the call at %s", fnName(caller), pos)
		}
		l.nSites++
		l.c.OK(key, r3, pos)
	}
	if n == 0 {
		return false, "no call site inside the repository"
	}
	l.memo[mkey] = true
	return true, ""
}

func loadC03Table() (*c03Table, error) {
	b, err := os.ReadFile(filepath.Join(tablesDir(), "c03.json"))
	if err != nil {
		return nil, err
	}
	t := &c03Table{}
	if err := json.Unmarshal(b, t); err != nil {
		return nil, err
	}
	t.just = map[string]c03Just{}
	for _, j := range t.Justified {
		t.just[j.Fn+"|"+j.Kind+"|"+j.Site] = j
	}
	return t, nil
}

// justified: a reviewed entry covers the site: directly, or because the site
// sits in a helper all of whose callers are visible and every one of them is
// covered by the same entry (an extracted helper inherits the reviewed argument
// about the code it was cut out of: function-level entries, or the same site
// shape one level up).
func (l *c03Lifter) justified(t *c03Table, fn *ssa.Function, kind, site string, depth int) (c03Just, bool) {
	if j, ok := t.lookup(fnName(fn), kind, site); ok {
		return j, true
	}
	// the function an entry names was renamed (unambiguously, see names.go)
	if pk := fnPkg(fn); pk != nil && fn.Parent() == nil {
		for _, old := range t.fnNames() {
			if old != fnName(fn) && l.p.fnByName(pk.Pkg.Path(), old) == nil && l.p.Fn(pk.Pkg.Path(), old) == fn {
				if j, ok := t.lookup(old, kind, site); ok {
					return j, true
				}
			}
		}
	}
	if depth >= 2 || !l.liftable(fn) {
		return c03Just{}, false
	}
	node := l.p.VTA().Nodes[fn]
	if node == nil || len(node.In) == 0 {
		return c03Just{}, false
	}
	var first c03Just
	for _, e := range node.In {
		if e.Caller != nil && e.Caller.Func != nil && e.Caller.Func.Synthetic != "" && len(e.Caller.In) == 0 {
			continue // promoted-method wrapper nobody calls
		}
		if e.Caller == nil || e.Caller.Func == nil || !l.p.IsRepoFn(e.Caller.Func) || e.Caller.Func == fn {
			return c03Just{}, false
		}
		j, ok := l.justified(t, e.Caller.Func, kind, site, depth+1)
		if !ok {
			return c03Just{}, false
		}
		if first.Reason == "" {
			first = j
			first.Reason = "helper of " + fnName(e.Caller.Func) + ": " + j.Reason
		}
	}
	return first, true
}

// boundsProved: every bounds goal of the site holds, from the function's own
// guards or from a precondition verified at all of its call sites.
func (l *c03Lifter) boundsProved(in ssa.Instruction) (bool, string) {
	fn := in.Parent()
	lp := l.prover(fn)
	for _, g := range lp.siteGoals(in) {
		ok, pres := lp.ProveOrLift(in, g.L, g.R)
		if ok {
			continue
		}
		lifted, why := false, ""
		for _, pre := range pres {
			okL, w := l.verify(fn, pre, g.What, 0)
			if okL {
				lifted = true
				break
			}
			if why == "" {
				why = w
			}
		}
		if !lifted {
			if why != "" {
				return false, g.What + " (" + why + ")"
			}
			return false, g.What
		}
	}
	return true, ""
}

// c03FieldAt: a value of the caller that equals arg.f at the call site: a load
// of (or store to) that field dominating the call, with no other store to the
// field and no call that may write it in between.
func c03FieldAt(clp *linProver, site ssa.CallInstruction, arg ssa.Value, f *types.Var) ssa.Value {
	stores := clp.storesToField(f)
	mw := clp.mayWriteCalls(f)
	clean := func(from ssa.Instruction) bool {
		if !dominates(from, site) {
			return false
		}
		for _, st := range stores {
			if st != from && between(from, st, site) {
				return false
			}
		}
		for _, c := range mw {
			if c != ssa.Instruction(site) && c != from && between(from, c, site) {
				return false
			}
		}
		return true
	}
	var found ssa.Value
	allInstrs(clp.fn, func(in ssa.Instruction) {
		if found != nil {
			return
		}
		switch x := in.(type) {
		case *ssa.UnOp:
			if x.Op != token.MUL {
				return
			}
			fa, ok := x.X.(*ssa.FieldAddr)
			if !ok || structField(fa.X.Type(), fa.Field) != f || resolve(fa.X) != resolve(arg) {
				return
			}
			if clean(x) {
				found = x
			}
		case *ssa.Store:
			fa, ok := x.Addr.(*ssa.FieldAddr)
			if !ok || structField(fa.X.Type(), fa.Field) != f || resolve(fa.X) != resolve(arg) {
				return
			}
			if clean(x) {
				found = x.Val
			}
		}
	})
	return found
}

// c03ParamOf maps contract parameter indexes to the values at a call site.
func c03ArgAt(site ssa.CallInstruction, i int) ssa.Value {
	cc := site.Common()
	if cc.IsInvoke() {
		if i == 0 {
			return cc.Value
		}
		if i-1 < len(cc.Args) {
			return cc.Args[i-1]
		}
		return nil
	}
	if i < len(cc.Args) {
		return cc.Args[i]
	}
	return nil
}

var c03RandFns = map[string]bool{
	"math/rand.Intn": true, "math/rand.Int63n": true, "math/rand.Int31n": true, "(*math/rand.Rand).Intn": true,
	"(*math/rand.Rand).Int63n": true, "(*math/rand.Rand).Int31n": true, "math/rand/v2.IntN": true,
}

func checkC03(c *Check) {
	p := c.P
	if p.Cfg.GOOS != "linux" || p.Cfg.GOARCH != "amd64" {
		// the compiler report and the reviewed table are for the primary configuration
		c.Notes = append(c.Notes, "C03 is decided on linux/amd64 only (compiler bounds-check report + reviewed table); skipped for "+p.Cfg.String())
		return
	}
	table, err := loadC03Table()
	if err != nil {
		c.Unres("justification table hv/tables/c03.json: " + err.Error())
		return
	}
	bce, err := bceReport(p)
	if err != nil {
		c.Unres("compiler bounds-check report: " + err.Error())
		return
	}
	if len(bce) < 50 {
		c.Unres(fmt.Sprintf("compiler bounds-check report suspiciously small (%d sites)", len(bce)))
		return
	}
	scope := c03Scope(c)
	var fns []*ssa.Function
	for fn := range scope {
		fns = append(fns, fn)
	}
	sort.Slice(fns, func(i, j int) bool { return fns[i].String() < fns[j].String() })
	c.Floor("C03.scope:functions", len(fns), 80)
	{
		// make the functions the table names known to the rename table (recording mode only)
		named := map[string]bool{}
		for _, n := range table.fnNames() {
			named[n] = true
		}
		for _, fn := range fns {
			if pk := fnPkg(fn); pk != nil && fn.Parent() == nil && named[fnName(fn)] {
				_ = p.Fn(pk.Pkg.Path(), fnName(fn))
			}
		}
	}

	const r1 = "C03.R1 every potentially panicking site in peer-reachable repository code is discharged: proven in bounds by the compiler or by hv's linear prover from the guards dominating it, or covered by a reviewed justification"
	posKey := func(pos token.Pos) string {
		ps := p.Fset.Position(pos)
		return fmt.Sprintf("%s:%d:%d", ps.Filename, ps.Line, ps.Column)
	}
	usedBCE := map[string]bool{}
	linAxioms, linAxiomUsed = table.Axioms, map[int]bool{}
	lifter := newC03Lifter(c)
	counts := map[string]int{}
	dup := map[string]int{}
	var dump []c03Just
	dumping := os.Getenv("HV_C03_DUMP") != ""
	for _, fn := range fns {
		c.Saw(fnName(fn))
		lp := newLinProver(p, fn)
		var sites []c03Site
		allInstrs(fn, func(in ssa.Instruction) {
			switch x := in.(type) {
			case *ssa.IndexAddr, *ssa.Index, *ssa.Slice, *ssa.SliceToArrayPointer:
				v := in.(ssa.Value)
				if v.Pos().IsValid() {
					k := posKey(v.Pos())
					if _, unproven := bce[k]; !unproven {
						counts["compiler-proved"]++
						return
					}
					usedBCE[k] = true
				} else if _, isS2A := in.(*ssa.SliceToArrayPointer); !isS2A {
					// implicit (range loops, variadic packs): generated in bounds by construction
					counts["implicit"]++
					return
				}
				sites = append(sites, c03Site{fn: fn, in: in, kind: "bounds"})
			case *ssa.Lookup:
				if _, isMap := x.X.Type().Underlying().(*types.Map); isMap {
					return
				}
				if x.Pos().IsValid() {
					k := posKey(x.Pos())
					if _, unproven := bce[k]; !unproven {
						counts["compiler-proved"]++
						return
					}
					usedBCE[k] = true
				}
				sites = append(sites, c03Site{fn: fn, in: in, kind: "bounds"})
			case *ssa.BinOp:
				if (x.Op == token.QUO || x.Op == token.REM) && isIntType(x.Type()) {
					if k, ok := constInt(x.Y); ok && k != 0 {
						return
					}
					sites = append(sites, c03Site{fn: fn, in: in, kind: "div"})
				}
			case *ssa.TypeAssert:
				if !x.CommaOk {
					sites = append(sites, c03Site{fn: fn, in: in, kind: "assert"})
				}
			case *ssa.Panic:
				// go/ssa synthesises a panic for a blocking select without default
				// ("matched no case"): unreachable by construction, no source position
				if !x.Pos().IsValid() {
					return
				}
				sites = append(sites, c03Site{fn: fn, in: in, kind: "panic"})
			case *ssa.MakeSlice:
				if _, ok := constInt(x.Len); !ok {
					sites = append(sites, c03Site{fn: fn, in: in, kind: "make"})
				}
			case *ssa.Call:
				if f := staticCallee(x); f != nil && c03RandFns[f.String()] {
					sites = append(sites, c03Site{fn: fn, in: in, kind: "rand"})
				}
			}
		})
		for _, s := range sites {
			kind, sk := c03SiteKey(s.in)
			if s.kind == "rand" {
				kind = "rand"
			}
			base := fnName(fn) + "|" + kind + "|" + sk
			dup[base]++
			if dup[base] > 1 {
				sk = fmt.Sprintf("%s#%d", sk, dup[base])
			}
			okey := "C03.R1:" + fnName(fn) + ":" + kind + ":" + sk
			pos := p.InstrPos(s.in)
			var goals []linGoal
			missing := ""
			cx := lp.newCtx(s.in)
			switch kind {
			case "bounds":
				goals = lp.siteGoals(s.in)
			case "div":
				goals = []linGoal{{linConst(1), lp.lin(s.in.(*ssa.BinOp).Y, cx), "divisor >= 1"}}
			case "rand":
				call := s.in.(*ssa.Call)
				goals = []linGoal{{linConst(1), lp.lin(call.Call.Args[len(call.Call.Args)-1], cx), "argument >= 1"}}
			case "make":
				goals = []linGoal{{linConst(0), lp.lin(s.in.(*ssa.MakeSlice).Len, cx), "length >= 0"}}
			case "assert":
				missing = "type assertion without comma-ok"
			case "panic":
				missing = "explicit panic reachable"
			}
			proved := missing == ""
			nLift := 0
			for _, g := range goals {
				ok, pres := lp.ProveOrLift(s.in, g.L, g.R)
				if ok {
					continue
				}
				lifted, why := false, ""
				for _, pre := range pres {
					okL, w := lifter.verify(fn, pre, g.What, 0)
					if okL {
						lifted = true
						break
					}
					if why == "" {
						why = w
					}
				}
				if lifted {
					nLift++
					continue
				}
				proved, missing = false, g.What
				if why != "" {
					missing += " (needs the callers to establish it: " + why + ")"
				}
				break
			}
			if proved {
				if nLift > 0 {
					counts["hv-proved-with-caller-preconditions"]++
				} else {
					counts["hv-proved"]++
				}
				c.OK(okey, r1, pos)
				continue
			}
			if j, ok := lifter.justified(table, fn, kind, sk, 0); ok {
				counts["table"]++
				c.OK(okey, r1+" [justified: "+j.Reason+"]", pos)
				continue
			}
			if dumping {
				dump = append(dump, c03Just{Fn: fnName(fn), Kind: kind, Site: sk, Reason: "TODO " + pos + " missing: " + missing})
				continue
			}
			c.Bad(okey, r1, pos, "no dominating guard establishes `"+missing+"` for this "+kind+" site and no reviewed justification covers it: peer-controlled input can reach a run-time panic here")
		}
	}
	if dumping {
		b, _ := json.MarshalIndent(dump, "", " ")
		_ = os.WriteFile(os.Getenv("HV_C03_DUMP"), b, 0o644)
		c.Notes = append(c.Notes, fmt.Sprintf("dumped %d unjustified sites", len(dump)))
	}
	for i, ax := range linAxioms {
		if !linAxiomUsed[i] {
			c.Notes = append(c.Notes, fmt.Sprintf("axiom %s %s%s/%s not used by any proof on this tree", ax.Kind, ax.Callee, ax.Type, ax.Field))
		}
	}
	c.Notes = append(c.Notes, fmt.Sprintf("C03 scope: %d functions; sites: compiler-proved=%d implicit=%d hv-proved=%d hv-proved-with-caller-preconditions=%d (preconditions verified at %d call sites) table-justified=%d", len(fns), counts["compiler-proved"], counts["implicit"], counts["hv-proved"], counts["hv-proved-with-caller-preconditions"], lifter.nSites, counts["table"]))
	c.Floor("C03.R1:sites-needing-proof", counts["hv-proved"]+counts["hv-proved-with-caller-preconditions"]+counts["table"], 25)
}

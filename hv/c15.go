package main

import (
	"fmt"
	"go/token"
	"go/types"

	"golang.org/x/tools/go/ssa"
)

func init() {
	register(&propDef{
		ID:        "C15",
		Run:       checkC15,
		Technique: "static analysis: lockset (read/write mode, critical-section regions), field/map access census, edge-guard reachability and must-pass on the CFG, value identity through SSA (go/ssa)",
		Explanation: "Decides for all paths and schedules the structural necessary conditions of the traffic stats API: " +
			"R1 every access to the StatsMap/KickMap/OnlineMap/StreamMap fields of the stats server and to the per-user counters holds the server's mutex, every mutation holds it in write mode, and a map value is used outside the lock only after it was detached (replaced by a fresh map in the same write-locked region); " +
			"R2 every reset of StatsMap is preceded, inside the same write-locked region with no release in between, by the read that feeds the snapshot; " +
			"R3 LogTraffic consults the kick list with its id: on the hit edge the id is deleted and false returned, counters are only updated behind the miss edge, with tx->Tx and rx->Rx on the entry of that id, and true is returned; nothing else removes or replaces kick entries; " +
			"R4 LogOnlineState(id,true) is only reached behind the authenticator's true edge and the not-yet-authenticated edge, exactly once on every such path, with the authenticator's id; LogOnlineState(authID,false) is reached after the serve call returned, behind the true edge of the per-connection flag re-read after the serve call, exactly once on every such path; the stats server increments/decrements the id's count and removes the entry unless the new count is proven >= 1; " +
			"R5 every refused traffic report (LogTraffic false) leads on every path to CloseWithError on the QUIC connection, directly (UDP I/O) or through the disconnect sentinel (TCP relay).",
		NotDecided: []string{
			"exact conservation as an arithmetic identity over a concurrent history (linearizability; R1/R2 are its lock-discipline core)",
			"JSON encoding of the snapshot; authorisation of the API (secret header)",
			"panics / os.Exit between the online and the offline notification",
			"that the relay returns the disconnect sentinel when the *other* direction finished first (channel race inside copyTwoWayEx)",
			"the unsynchronised read of the handler flag after the serve call (Go memory model)",
		},
		Assumptions: []string{
			"lock identity = the mutex field of the stats server type (one server object per process)",
			"a helper called only with the lock held is analysed with that lock set (callers discovered statically)",
		},
	})
}

// ---------------------------------------------------------------------------
// small local helpers (all prefixed c15)

// c15localVal looks through a load of a multi-store alloc (named results are
// spilled in functions with defers) to the store that precedes it in the same
// block.
func c15localVal(v ssa.Value) ssa.Value {
	for i := 0; i < 8; i++ {
		v = resolve(v)
		u, ok := v.(*ssa.UnOp)
		if !ok || u.Op != token.MUL {
			return v
		}
		al, ok := u.X.(*ssa.Alloc)
		if !ok {
			return v
		}
		instrs := u.Block().Instrs
		idx := instrIndex(u)
		found := false
		for j := idx - 1; j >= 0; j-- {
			if st, ok := instrs[j].(*ssa.Store); ok && st.Addr == ssa.Value(al) {
				v = st.Val
				found = true
				break
			}
		}
		if !found {
			return v
		}
	}
	return v
}

// c15norm strips comparisons with boolean constants (`x == true`, `x != false`,
// as produced by `switch x { case true: }`) and negations from a branch
// condition, adjusting the polarity.
func c15norm(cond ssa.Value, pol bool) (ssa.Value, bool) {
	for i := 0; i < 8; i++ {
		cond, pol = stripNot(cond, pol)
		b, ok := cond.(*ssa.BinOp)
		if !ok || (b.Op != token.EQL && b.Op != token.NEQ) {
			return cond, pol
		}
		var other ssa.Value
		var k bool
		switch {
		case isConstBool(b.Y, true):
			other, k = b.X, true
		case isConstBool(b.Y, false):
			other, k = b.X, false
		case isConstBool(b.X, true):
			other, k = b.Y, true
		case isConstBool(b.X, false):
			other, k = b.Y, false
		default:
			return cond, pol
		}
		if (b.Op == token.EQL) != k {
			pol = !pol
		}
		cond = other
	}
	return cond, pol
}

// c15walk collects instructions reachable from the start of block b (or from
// the instruction after `from` when from != nil), not continuing past stop
// instructions (which are included) and not crossing edgeStop edges.
func c15walk(b *ssa.BasicBlock, stop func(ssa.Instruction) bool, edgeStop EdgePred) []ssa.Instruction {
	var out []ssa.Instruction
	seen := map[*ssa.BasicBlock]bool{}
	var walk func(b *ssa.BasicBlock)
	walk = func(b *ssa.BasicBlock) {
		if seen[b] {
			return
		}
		seen[b] = true
		for _, in := range b.Instrs {
			out = append(out, in)
			if stop != nil && stop(in) {
				return
			}
		}
		for i, s := range b.Succs {
			if edgeStop != nil {
				if c, pol, ok := edgeFact(b, i); ok && edgeStop(c, pol) {
					continue
				}
			}
			walk(s)
		}
	}
	walk(b)
	return out
}

// c15edgeTargets: successor blocks of edges accepted by pred.
func c15edgeTargets(fn *ssa.Function, pred EdgePred) []*ssa.BasicBlock {
	var out []*ssa.BasicBlock
	for _, b := range fn.Blocks {
		for i, s := range b.Succs {
			if c, pol, ok := edgeFact(b, i); ok && pred(c, pol) {
				out = append(out, s)
			}
		}
	}
	return out
}

func c15returnsIn(ins []ssa.Instruction) []*ssa.Return {
	var out []*ssa.Return
	for _, in := range ins {
		if r, ok := in.(*ssa.Return); ok {
			out = append(out, r)
		}
	}
	return out
}

func c15fieldOfAddr(v ssa.Value) *types.Var {
	if fa, ok := v.(*ssa.FieldAddr); ok {
		return structField(fa.X.Type(), fa.Field)
	}
	return nil
}

// c15paramIndex: index of v among fn's parameters (-1 if none).
func c15paramIndex(fn *ssa.Function, v ssa.Value) int {
	v = resolve(v)
	for i, p := range fn.Params {
		if ssa.Value(p) == v {
			return i
		}
	}
	return -1
}

func c15isRepoBody(p *Prog, f *ssa.Function) bool {
	return f != nil && len(f.Blocks) > 0 && p.IsRepoFn(f)
}

// ---------------------------------------------------------------------------
// anchors of the stats server

type c15stats struct {
	T        *types.Named
	mutex    *types.Var
	maps     []*types.Var // all map-typed fields
	stats    *types.Var
	kick     *types.Var
	online   *types.Var
	entryT   *types.Named
	fTx, fRx *types.Var
	logTraf  *ssa.Function
	logOnl   *ssa.Function
}

func c15resolveStats(c *Check) *c15stats {
	p := c.P
	s := &c15stats{}
	s.T = p.Named(pTraffic, "trafficStatsServerImpl")
	if s.T == nil {
		// by role: the concrete type returned by NewTrafficStatsServer
		if ctor := p.Fn(pTraffic, "NewTrafficStatsServer"); ctor != nil {
			allInstrs(ctor, func(in ssa.Instruction) {
				if mi, ok := in.(*ssa.MakeInterface); ok {
					if n := namedOf(mi.X.Type()); n != nil {
						s.T = n
					}
				}
			})
		}
	}
	if s.T == nil {
		c.Unres("extras/trafficlogger: stats server implementation type")
		return nil
	}
	st, ok := s.T.Underlying().(*types.Struct)
	if !ok {
		c.Unres("stats server type is not a struct")
		return nil
	}
	for i := 0; i < st.NumFields(); i++ {
		f := st.Field(i)
		if n := namedOf(f.Type()); n != nil && n.Obj().Pkg() != nil && n.Obj().Pkg().Path() == "sync" && (n.Obj().Name() == "RWMutex" || n.Obj().Name() == "Mutex") {
			if s.mutex != nil {
				c.Unres("stats server has more than one mutex field")
				return nil
			}
			s.mutex = f
		}
		if _, isMap := f.Type().Underlying().(*types.Map); isMap {
			s.maps = append(s.maps, f)
			switch f.Name() {
			case "StatsMap":
				s.stats = f
			case "KickMap":
				s.kick = f
			case "OnlineMap":
				s.online = f
			}
		}
	}
	if s.mutex == nil {
		c.Unres("mutex field of " + s.T.Obj().Name())
		return nil
	}
	if s.stats == nil || s.kick == nil || s.online == nil {
		c.Unres("map fields StatsMap/KickMap/OnlineMap of " + s.T.Obj().Name())
		return nil
	}
	if m, ok := s.stats.Type().Underlying().(*types.Map); ok {
		s.entryT = namedOf(m.Elem())
	}
	if s.entryT == nil {
		c.Unres("per-user counter entry type (element of StatsMap)")
		return nil
	}
	if est, ok := s.entryT.Underlying().(*types.Struct); ok {
		for i := 0; i < est.NumFields(); i++ {
			switch est.Field(i).Name() {
			case "Tx":
				s.fTx = est.Field(i)
			case "Rx":
				s.fRx = est.Field(i)
			}
		}
	}
	if s.fTx == nil || s.fRx == nil {
		c.Unres("counter fields Tx/Rx of " + s.entryT.Obj().Name())
		return nil
	}
	s.logTraf = p.MethodOf(types.NewPointer(s.T), "LogTraffic")
	s.logOnl = p.MethodOf(types.NewPointer(s.T), "LogOnlineState")
	if s.logTraf == nil || s.logOnl == nil || len(s.logTraf.Blocks) == 0 || len(s.logOnl.Blocks) == 0 {
		c.Unres("methods LogTraffic/LogOnlineState of " + s.T.Obj().Name())
		return nil
	}
	if len(s.logTraf.Params) != 4 || len(s.logOnl.Params) != 3 {
		c.Unres("signature of LogTraffic(id,tx,rx)/LogOnlineState(id,online)")
		return nil
	}
	return s
}

// c15isLoadOf: v is a load of struct field f.
func c15isLoadOf(v ssa.Value, f *types.Var) bool { return isLoadOfField(v, f) }

// c15freshRoot: the access goes through an object allocated in this function
// (constructor: not yet shared).
func c15freshRoot(addr ssa.Value, fn *ssa.Function) bool {
	al, ok := accessPath(addr).Root.(*ssa.Alloc)
	return ok && al.Parent() == fn
}

// ---------------------------------------------------------------------------
// R1: uses of a loaded map value

type c15use struct {
	instr ssa.Instruction
	write bool
	what  string
}

// c15mapUses enumerates the operations performed on map value m (following
// interface conversions, phis and repo callees receiving it).  problems lists
// uses the walker cannot classify (escapes).
func c15mapUses(p *Prog, m ssa.Value, depth int, seen map[ssa.Value]bool, uses *[]c15use, problems *[]ssa.Instruction) {
	if seen[m] || depth > 3 {
		return
	}
	seen[m] = true
	refs := m.Referrers()
	if refs == nil {
		return
	}
	for _, r := range *refs {
		switch u := r.(type) {
		case *ssa.DebugRef:
		case *ssa.MapUpdate:
			if u.Map == m {
				*uses = append(*uses, c15use{u, true, "map update"})
			} else {
				*problems = append(*problems, u)
			}
		case *ssa.Lookup:
			*uses = append(*uses, c15use{u, false, "map lookup"})
		case *ssa.Range:
			*uses = append(*uses, c15use{u, false, "range"})
			for _, rr := range *u.Referrers() {
				if nx, ok := rr.(*ssa.Next); ok {
					*uses = append(*uses, c15use{nx, false, "range step"})
				}
			}
		case *ssa.BinOp: // comparison with nil
		case *ssa.MakeInterface:
			c15mapUses(p, u, depth, seen, uses, problems)
		case *ssa.ChangeType:
			c15mapUses(p, u, depth, seen, uses, problems)
		case *ssa.Phi:
			c15mapUses(p, u, depth, seen, uses, problems)
		case *ssa.Call:
			switch {
			case isBuiltinCall(u, "delete"), isBuiltinCall(u, "clear"):
				*uses = append(*uses, c15use{u, true, "map " + u.Call.Value.Name()})
			case isBuiltinCall(u, "len"):
				*uses = append(*uses, c15use{u, false, "len"})
			default:
				*uses = append(*uses, c15use{u, false, "call reading the map"})
				if f := staticCallee(u); c15isRepoBody(p, f) {
					for i, a := range u.Call.Args {
						if a == m && i < len(f.Params) {
							c15mapUses(p, f.Params[i], depth+1, seen, uses, problems)
						}
					}
				}
			}
		default:
			*problems = append(*problems, r)
		}
	}
}

// c15detached: the map loaded at `load` from field f was replaced in the field
// (store of another value) inside the same write-locked region, and use u is
// only reachable from the load through that store: the old map is private.
func c15detached(la *LockAnalysis, load ssa.Instruction, u ssa.Instruction, f, mutex *types.Var) bool {
	fn := load.Parent()
	if u.Parent() != fn {
		return false
	}
	var resets []ssa.Instruction
	allInstrs(fn, func(in ssa.Instruction) {
		if st, ok := in.(*ssa.Store); ok && c15fieldOfAddr(st.Addr) == f && st.Val != load.(ssa.Value) {
			if la.sameRegion(load, st, mutex, lockW) {
				resets = append(resets, st)
			}
		}
	})
	if len(resets) == 0 {
		return false
	}
	isReset := func(in ssa.Instruction) bool {
		for _, r := range resets {
			if r == in {
				return true
			}
		}
		return false
	}
	for _, in := range reachFrom(fn, load, isReset, nil) {
		if in == u && !isReset(in) {
			return false
		}
	}
	return true
}

func c15R1(c *Check, s *c15stats, la *LockAnalysis) {
	p := c.P
	const r1 = "C15.R1 every access to the stats server's map fields and per-user counters holds the server mutex; every mutation holds it in write mode; a map is used outside the lock only after being detached"
	nEntry := 0
	pairs := map[string]bool{} // distinct (field, function) access pairs
	ord := map[string]int{}
	key := func(base string) string {
		ord[base]++
		if ord[base] == 1 {
			return base
		}
		return fmt.Sprintf("%s#%d", base, ord[base])
	}
	for _, f := range s.maps {
		for _, fr := range fieldRefs(p.RepoFns, f) {
			if c15freshRoot(fr.Addr, fr.Fn) {
				continue
			}
			c.Saw(fnName(fr.Fn))
			pos := p.InstrPos(fr.Instr)
			base := "C15.R1:" + f.Name() + ":" + fnName(fr.Fn)
			switch fr.Kind {
			case "addr":
				c.Bad(key(base+":addr"), r1, pos, "the address of field "+f.Name()+" is taken (accesses through the alias cannot be tied to the lock)")
			case "store":
				pairs[base] = true
				c.Req(la.Holds(fr.Instr, s.mutex, lockW), key(base+":store"), r1, pos, "field "+f.Name()+" is reassigned without holding "+s.mutex.Name()+" in write mode")
			case "load":
				pairs[base] = true
				held := la.Holds(fr.Instr, s.mutex, lockR)
				c.Req(held, key(base+":load"), r1, pos, "field "+f.Name()+" is read without holding "+s.mutex.Name())
				var uses []c15use
				var problems []ssa.Instruction
				c15mapUses(p, fr.Val, 0, map[ssa.Value]bool{}, &uses, &problems)
				for _, u := range uses {
					if c15detached(la, fr.Instr, u.instr, f, s.mutex) {
						c.OK(key(base+":detached-use"), r1, p.InstrPos(u.instr))
						continue
					}
					mode, mname := lockR, "read"
					if u.write {
						mode, mname = lockW, "write"
					}
					c.Req(la.Holds(u.instr, s.mutex, mode), key(base+":"+u.what), r1, p.InstrPos(u.instr),
						fmt.Sprintf("%s on %s in %s without holding %s in %s mode", u.what, f.Name(), fnName(u.instr.Parent()), s.mutex.Name(), mname))
				}
				for _, pr := range problems {
					if c15detached(la, fr.Instr, pr, f, s.mutex) {
						continue
					}
					c.Undecided(key(base+":escape"), r1, p.InstrPos(pr), "the map loaded from "+f.Name()+" flows into an instruction the census cannot follow (returned / stored / captured)")
				}
			}
		}
	}
	c.Floor("C15.R1:map-field-users", len(pairs), 4)
	for _, f := range []*types.Var{s.fTx, s.fRx} {
		for _, fr := range fieldRefs(p.RepoFns, f) {
			if c15freshRoot(fr.Addr, fr.Fn) {
				continue
			}
			pos := p.InstrPos(fr.Instr)
			base := "C15.R1:entry." + f.Name() + ":" + fnName(fr.Fn)
			switch fr.Kind {
			case "addr":
				c.Bad(key(base+":addr"), r1, pos, "the address of counter "+f.Name()+" is taken (updates through the alias cannot be tied to the lock)")
			case "store":
				nEntry++
				c.Req(la.Holds(fr.Instr, s.mutex, lockW), key(base+":store"), r1, pos, "counter "+f.Name()+" is written without holding "+s.mutex.Name()+" in write mode (lost update against a concurrent report or snapshot)")
			case "load":
				nEntry++
				c.Req(la.Holds(fr.Instr, s.mutex, lockR), key(base+":load"), r1, pos, "counter "+f.Name()+" is read without holding "+s.mutex.Name())
			}
		}
	}
	c.Floor("C15.R1:counter-accesses", nEntry, 2)
}

// ---------------------------------------------------------------------------
// R2

// c15readsField: fn (or a repo callee, depth<=2) loads field f.
func c15readsField(p *Prog, fn *ssa.Function, f *types.Var, depth int) bool {
	if !c15isRepoBody(p, fn) || depth > 2 {
		return false
	}
	found := false
	allInstrs(fn, func(in ssa.Instruction) {
		if u, ok := in.(*ssa.UnOp); ok && u.Op == token.MUL && c15fieldOfAddr(u.X) == f {
			found = true
		}
		if call, ok := in.(*ssa.Call); ok && !found {
			if g := staticCallee(call); g != nil && g != fn && c15readsField(p, g, f, depth+1) {
				found = true
			}
		}
	})
	return found
}

func c15R2(c *Check, s *c15stats, la *LockAnalysis) {
	p := c.P
	const r2 = "C15.R2 every reset of StatsMap is preceded in the same write-locked region (no release in between on any path) by the read of StatsMap that feeds the snapshot"
	n := 0
	for _, fn := range p.RepoFns {
		if pk := fnPkg(fn); pk == nil || pk.Pkg.Path() != pTraffic {
			continue
		}
		var resets []ssa.Instruction
		allInstrs(fn, func(in ssa.Instruction) {
			switch x := in.(type) {
			case *ssa.Store:
				if c15fieldOfAddr(x.Addr) == s.stats && !c15freshRoot(x.Addr, fn) {
					resets = append(resets, x)
				}
			case *ssa.Call:
				if isBuiltinCall(x, "clear") && len(x.Call.Args) == 1 && c15isLoadOf(x.Call.Args[0], s.stats) {
					resets = append(resets, x)
				}
			}
		})
		if len(resets) == 0 {
			continue
		}
		c.Saw(fnName(fn))
		// candidate snapshot reads
		var reads []ssa.Instruction
		allInstrs(fn, func(in ssa.Instruction) {
			switch x := in.(type) {
			case *ssa.UnOp:
				if x.Op != token.MUL || c15fieldOfAddr(x.X) != s.stats {
					return
				}
				var uses []c15use
				var problems []ssa.Instruction
				c15mapUses(p, x, 0, map[ssa.Value]bool{}, &uses, &problems)
				for _, u := range uses {
					if u.what == "call reading the map" || u.what == "range" {
						reads = append(reads, x)
						return
					}
				}
			case *ssa.Call:
				if g := staticCallee(x); g != nil && c15readsField(p, g, s.stats, 0) {
					reads = append(reads, x)
				}
			}
		})
		for i, rs := range resets {
			n++
			good := false
			for _, rd := range reads {
				if rd != rs && dominates(rd, rs) && la.sameRegion(rd, rs, s.mutex, lockW) {
					good = true
				}
			}
			k := "C15.R2:reset:" + fnName(fn)
			if i > 0 {
				k = fmt.Sprintf("%s#%d", k, i+1)
			}
			c.Req(good, k, r2, p.InstrPos(rs), "StatsMap is reset without the snapshot read of StatsMap in the same write-locked critical section: bytes logged between the snapshot and the reset are lost (or counted twice)")
		}
	}
	c.Floor("C15.R2:reset", n, 1)
}

// ---------------------------------------------------------------------------
// R3

type c15upd struct {
	instr  ssa.Instruction // the store, or the call of the helper performing it
	field  *types.Var
	entry  ssa.Value // pointer to the entry being updated
	amount ssa.Value // value added
}

// c15directUpdates: stores `e.F = e.F + a` in fn (F one of the counter fields).
func c15directUpdates(fn *ssa.Function, s *c15stats) (ups []c15upd, other []ssa.Instruction) {
	allInstrs(fn, func(in ssa.Instruction) {
		st, ok := in.(*ssa.Store)
		if !ok {
			return
		}
		f := c15fieldOfAddr(st.Addr)
		if f != s.fTx && f != s.fRx {
			return
		}
		fa := st.Addr.(*ssa.FieldAddr)
		if al, ok := resolve(fa.X).(*ssa.Alloc); ok && al.Parent() == fn && len(c15mapUpdatesOf(al)) == 0 {
			return // initialising a private object
		}
		bo, ok := st.Val.(*ssa.BinOp)
		if ok && bo.Op == token.ADD {
			isOld := func(v ssa.Value) bool {
				u, ok := v.(*ssa.UnOp)
				if !ok || u.Op != token.MUL {
					return false
				}
				fa2, ok := u.X.(*ssa.FieldAddr)
				return ok && structField(fa2.X.Type(), fa2.Field) == f && (fa2.X == fa.X || sameValue(fa2.X, fa.X))
			}
			switch {
			case isOld(bo.X):
				ups = append(ups, c15upd{st, f, fa.X, bo.Y})
				return
			case isOld(bo.Y):
				ups = append(ups, c15upd{st, f, fa.X, bo.X})
				return
			}
		}
		other = append(other, st)
	})
	return
}

func c15mapUpdatesOf(v ssa.Value) []*ssa.MapUpdate {
	var out []*ssa.MapUpdate
	if v.Referrers() == nil {
		return nil
	}
	for _, r := range *v.Referrers() {
		if mu, ok := r.(*ssa.MapUpdate); ok && mu.Value == v {
			out = append(out, mu)
		}
	}
	return out
}

// c15updates: counter updates performed by fn directly or through a repo
// helper that receives the entry and the amount as parameters (one level).
func c15updates(p *Prog, fn *ssa.Function, s *c15stats) (ups []c15upd, other []ssa.Instruction) {
	ups, other = c15directUpdates(fn, s)
	allInstrs(fn, func(in ssa.Instruction) {
		call, ok := in.(*ssa.Call)
		if !ok {
			return
		}
		g := staticCallee(call)
		if !c15isRepoBody(p, g) || g == fn {
			return
		}
		gu, gother := c15directUpdates(g, s)
		for _, u := range gu {
			ei, ai := c15paramIndex(g, u.entry), c15paramIndex(g, u.amount)
			if ei < 0 || ai < 0 || ei >= len(call.Call.Args) || ai >= len(call.Call.Args) {
				other = append(other, call)
				continue
			}
			ups = append(ups, c15upd{call, u.field, call.Call.Args[ei], call.Call.Args[ai]})
		}
		if len(gother) > 0 {
			other = append(other, call)
		}
	})
	return
}

// c15entryOfID: e is the StatsMap entry of key id (lookup result, or a fresh
// entry inserted under that key), on every phi edge; one level of helper.
func c15entryOfID(p *Prog, e ssa.Value, id ssa.Value, s *c15stats, depth int) bool {
	e = resolve(e)
	switch x := e.(type) {
	case *ssa.Phi:
		if depth > 4 {
			return false
		}
		for _, ed := range x.Edges {
			if !c15entryOfID(p, ed, id, s, depth+1) {
				return false
			}
		}
		return true
	case *ssa.Extract:
		if lk, ok := x.Tuple.(*ssa.Lookup); ok && x.Index == 0 {
			return c15isLoadOf(lk.X, s.stats) && resolve(lk.Index) == id
		}
		// helper returning (entry, ...)
		if call, ok := x.Tuple.(*ssa.Call); ok {
			return c15entryFromHelper(p, call, x.Index, id, s, depth)
		}
	case *ssa.Lookup:
		return c15isLoadOf(x.X, s.stats) && resolve(x.Index) == id
	case *ssa.Alloc:
		mus := c15mapUpdatesOf(x)
		if len(mus) == 0 {
			return false
		}
		for _, mu := range mus {
			if !c15isLoadOf(mu.Map, s.stats) || resolve(mu.Key) != id {
				return false
			}
		}
		return true
	case *ssa.Call:
		return c15entryFromHelper(p, x, 0, id, s, depth)
	}
	return false
}

func c15entryFromHelper(p *Prog, call *ssa.Call, resIdx int, id ssa.Value, s *c15stats, depth int) bool {
	g := staticCallee(call)
	if !c15isRepoBody(p, g) || depth > 2 {
		return false
	}
	// which parameter of g receives id
	pi := -1
	for i, a := range call.Call.Args {
		if resolve(a) == id {
			pi = i
		}
	}
	if pi < 0 || pi >= len(g.Params) {
		return false
	}
	n := 0
	ok := true
	allInstrs(g, func(in ssa.Instruction) {
		r, isRet := in.(*ssa.Return)
		if !isRet || g.Recover == r.Block() {
			return
		}
		rs := retResults(r)
		if resIdx >= len(rs) {
			ok = false
			return
		}
		n++
		if !c15entryOfID(p, rs[resIdx], g.Params[pi], s, depth+1) {
			ok = false
		}
	})
	return ok && n > 0
}

// c15boolOn evaluates a returned bool on paths where `known` has value kv.
func c15boolOn(v ssa.Value, known ssa.Value, kv bool) (val bool, ok bool) {
	v = c15localVal(v)
	if cst, isC := v.(*ssa.Const); isC && cst.Value != nil {
		if isConstBool(v, true) {
			return true, true
		}
		if isConstBool(v, false) {
			return false, true
		}
	}
	x, pol := stripNot(v, true)
	if c15localVal(x) == known {
		return pol == kv, true
	}
	return false, false
}

// c15kickLookup: the ok result of the comma-ok lookup KickMap[key] in fn;
// foreign lists comma-ok lookups of KickMap under another key.
func c15kickLookup(fn *ssa.Function, s *c15stats, key ssa.Value) (hit ssa.Value, foreign []*ssa.Lookup) {
	allInstrs(fn, func(in ssa.Instruction) {
		lk, ok := in.(*ssa.Lookup)
		if !ok || !lk.CommaOk || !c15isLoadOf(lk.X, s.kick) {
			return
		}
		if resolve(lk.Index) == key {
			if e := extractOf(lk, 1); e != nil {
				hit = e
			}
		} else {
			foreign = append(foreign, lk)
		}
	})
	return
}

func c15R3(c *Check, s *c15stats, la *LockAnalysis) {
	p := c.P
	fn := s.logTraf
	c.Saw(fnName(fn))
	const r3 = "C15.R3 LogTraffic: kick hit => delete that id and return false; counters are updated only behind the miss edge, tx->Tx and rx->Rx on the entry of that id, then true; nothing else removes kick entries"
	idP, txP, rxP := ssa.Value(fn.Params[1]), ssa.Value(fn.Params[2]), ssa.Value(fn.Params[3])
	// the kick test: comma-ok lookup of KickMap[id], in LogTraffic itself or in
	// a helper (test + consume) that LogTraffic calls with its id
	hit, foreign := c15kickLookup(fn, s, idP)
	for _, lk := range foreign {
		c.Bad("C15.R3:kick-lookup-key", r3, p.InstrPos(lk), "the kick list is consulted with a key other than LogTraffic's id parameter")
	}
	hitPol := true // value of `hit` that means "a kick is pending"
	var c15helper *ssa.Function
	var c15helperKey, c15helperHit ssa.Value
	if hit == nil {
		allInstrs(fn, func(in ssa.Instruction) {
			call, ok := in.(*ssa.Call)
			if !ok || c15helper != nil {
				return
			}
			g := staticCallee(call)
			if !c15isRepoBody(p, g) || g == fn {
				return
			}
			res := g.Signature.Results()
			if res.Len() != 1 || !types.Identical(res.At(0).Type().Underlying(), types.Typ[types.Bool]) {
				return
			}
			for i, a := range call.Call.Args {
				if resolve(a) != idP || i >= len(g.Params) {
					continue
				}
				gh, gforeign := c15kickLookup(g, s, g.Params[i])
				if gh == nil {
					continue
				}
				for _, lk := range gforeign {
					c.Bad("C15.R3:kick-lookup-key", r3, p.InstrPos(lk), "the kick list is consulted with a key other than LogTraffic's id parameter")
				}
				c15helper, c15helperKey, c15helperHit = g, g.Params[i], gh
				hit = call
				return
			}
		})
	}
	if hit == nil {
		c.Bad("C15.R3:kick-lookup", r3, p.Pos(fn.Pos()), "LogTraffic no longer tests KickMap[id] (a kicked user is never refused)")
		return
	}
	mkEdges := func(h ssa.Value, hp bool) (EdgePred, EdgePred) {
		return func(cond ssa.Value, pol bool) bool {
				v, q := c15norm(cond, pol)
				return q == hp && c15localVal(v) == h
			}, func(cond ssa.Value, pol bool) bool {
				v, q := c15norm(cond, pol)
				return q != hp && c15localVal(v) == h
			}
	}
	mkDelete := func(key ssa.Value) func(ssa.Instruction) bool {
		return func(in ssa.Instruction) bool {
			call, ok := in.(*ssa.Call)
			return ok && isBuiltinCall(call, "delete") && len(call.Call.Args) == 2 && c15isLoadOf(call.Call.Args[0], s.kick) && resolve(call.Call.Args[1]) == key
		}
	}
	// the function holding the lookup and the delete: LogTraffic or the helper
	kfn, kKey, kHit := fn, idP, hit
	if c15helper != nil {
		kfn, kKey, kHit = c15helper, c15helperKey, c15helperHit
		c.Saw(fnName(kfn))
	}
	kHitEdge, kMissEdge := mkEdges(kHit, true)
	isKickDelete := mkDelete(kKey)
	kHitBlocks := c15edgeTargets(kfn, kHitEdge)
	kMissBlocks := c15edgeTargets(kfn, kMissEdge)
	if !c.Req(len(kHitBlocks) > 0 && len(kMissBlocks) > 0, "C15.R3:kick-branch", r3, p.Pos(kfn.Pos()), "the result of the KickMap lookup does not decide a branch") {
		return
	}
	for _, hb := range kHitBlocks {
		leaks := c15returnsIn(c15walk(hb, isKickDelete, nil))
		c.Req(len(leaks) == 0, "C15.R3:hit-deletes-id", r3, p.InstrPos(hb.Instrs[0]), "a path on the kick-hit edge returns without delete(KickMap, id): the user is refused on every later report (or the entry is never consumed)")
	}
	if c15helper != nil {
		// the helper's verdict: one constant on the hit edge, its negation on the miss edge
		verdict := func(blocks []*ssa.BasicBlock, kv bool) (vals map[bool]bool, ok bool) {
			vals, ok = map[bool]bool{}, true
			for _, b := range blocks {
				for _, r := range c15returnsIn(c15walk(b, nil, nil)) {
					rs := retResults(r)
					if len(rs) != 1 {
						ok = false
						continue
					}
					v, k := c15boolOn(rs[0], kHit, kv)
					if !k {
						ok = false
						continue
					}
					vals[v] = true
				}
			}
			return
		}
		hv, ok1 := verdict(kHitBlocks, true)
		mv, ok2 := verdict(kMissBlocks, false)
		switch {
		case !ok1 || !ok2:
			c.Undecided("C15.R3:kick-helper-verdict", r3, p.Pos(kfn.Pos()), "cannot evaluate what "+fnName(kfn)+" returns on the kick-hit / kick-miss edge")
			return
		case len(hv) == 1 && len(mv) == 1 && hv[true] != mv[true]:
			hitPol = hv[true]
		default:
			c.Bad("C15.R3:kick-helper-verdict", r3, p.Pos(kfn.Pos()), "the result of "+fnName(kfn)+" does not tell a pending kick from none (a kicked user is never refused, or everyone is)")
			return
		}
	}
	hitEdge, missEdge := mkEdges(hit, hitPol)
	hitBlocks := c15edgeTargets(fn, hitEdge)
	missBlocks := c15edgeTargets(fn, missEdge)
	if !c.Req(len(hitBlocks) > 0 && len(missBlocks) > 0, "C15.R3:kick-branch", r3, p.Pos(fn.Pos()), "the result of the KickMap lookup does not decide a branch") {
		return
	}
	// hit path: returns false
	for _, hb := range hitBlocks {
		bad := ""
		for _, r := range c15returnsIn(c15walk(hb, nil, nil)) {
			rs := retResults(r)
			if len(rs) != 1 {
				continue
			}
			v, ok := c15boolOn(rs[0], hit, hitPol)
			if !ok {
				c.Undecided("C15.R3:hit-returns-false", r3, p.InstrPos(r), "cannot evaluate the value returned on the kick-hit edge")
				bad = "-"
			} else if v {
				bad = p.InstrPos(r)
			}
		}
		if bad != "-" {
			c.Req(bad == "", "C15.R3:hit-returns-false", r3, p.InstrPos(hb.Instrs[0]), "the kick-hit edge returns true (report accepted, no disconnect) at "+bad)
		}
	}
	// counter updates
	ups, other := c15updates(p, fn, s)
	for _, o := range other {
		c.Bad("C15.R3:update-shape:"+fnName(o.Parent()), r3, p.InstrPos(o), "a per-user counter is written in a form other than `counter += amount`")
	}
	want := map[*types.Var]ssa.Value{s.fTx: txP, s.fRx: rxP}
	nUp := 0
	good := map[*types.Var][]ssa.Instruction{}
	for _, u := range ups {
		nUp++
		k := "C15.R3:update:" + u.field.Name()
		pos := p.InstrPos(u.instr)
		c.Req(guardedBy(u.instr, missEdge), k+":behind-miss-edge", r3, pos, "counter "+u.field.Name()+" is updated on a path that has not crossed the kick-miss edge (refused or not-yet-checked bytes are counted)")
		okAmt := resolve(u.amount) == want[u.field]
		c.Req(okAmt, k+":amount", r3, pos, fmt.Sprintf("counter %s is not incremented by LogTraffic's %s parameter", u.field.Name(), want[u.field].Name()))
		okEnt := c15entryOfID(p, u.entry, idP, s, 0)
		c.Req(okEnt, k+":entry", r3, pos, "the updated entry is not StatsMap[id] (lookup result or a fresh entry inserted under id)")
		if okAmt && okEnt {
			good[u.field] = append(good[u.field], u.instr)
		}
	}
	c.Floor("C15.R3:update", nUp, 2)
	for _, f := range []*types.Var{s.fTx, s.fRx} {
		isUp := func(in ssa.Instruction) bool {
			for _, g := range good[f] {
				if g == in {
					return true
				}
			}
			return false
		}
		for _, mb := range missBlocks {
			leaks := c15returnsIn(c15walk(mb, isUp, nil))
			c.Req(len(leaks) == 0, "C15.R3:miss-updates:"+f.Name(), r3, p.InstrPos(mb.Instrs[0]), "a path on the kick-miss edge returns without adding to "+f.Name())
		}
	}
	for _, mb := range missBlocks {
		bad := ""
		for _, r := range c15returnsIn(c15walk(mb, nil, nil)) {
			rs := retResults(r)
			if len(rs) != 1 {
				continue
			}
			if v, ok := c15boolOn(rs[0], hit, !hitPol); ok && !v {
				bad = p.InstrPos(r)
			} else if !ok {
				bad = p.InstrPos(r) + " (not a constant)"
			}
		}
		c.Req(bad == "", "C15.R3:miss-returns-true", r3, p.InstrPos(mb.Instrs[0]), "an accepted report returns something other than true at "+bad)
	}
	// removal / insertion census on KickMap
	nIns := 0
	for _, fr := range fieldRefs(p.RepoFns, s.kick) {
		if c15freshRoot(fr.Addr, fr.Fn) {
			continue
		}
		if fr.Kind == "store" {
			c.Bad("C15.R3:kickmap-replaced:"+fnName(fr.Fn), r3, p.InstrPos(fr.Instr), "KickMap is reassigned: pending kicks are dropped without refusing a report")
			continue
		}
		if fr.Kind != "load" {
			continue
		}
		for _, op := range mapOpsOn(fr.Val) {
			switch op.Kind {
			case "update":
				if fr.Fn != fn && fr.Fn != kfn {
					nIns++
				}
			case "delete":
				k := "C15.R3:kick-removal:" + fnName(fr.Fn)
				ok := fr.Fn == kfn && isKickDelete(op.Instr) && guardedBy(op.Instr, kHitEdge)
				if ok && c15helper != nil {
					// the consuming helper serves LogTraffic only
					cs := la.callers[kfn]
					ok = !la.escaped[kfn] && len(cs) == 1 && ssa.Value(hit) == cs[0].Value()
				}
				c.Req(ok, k, r3, p.InstrPos(op.Instr), "a kick entry is removed elsewhere than on LogTraffic's hit edge for that id (the kick is lost or another user's kick is consumed)")
			}
		}
	}
	c.Floor("C15.R3:kick-insert", nIns, 1)
}

// ---------------------------------------------------------------------------
// R4 (stats server side): OnlineMap arithmetic

// c15edgeBounds: for an edge on `y OP const` returns y and the integer bounds
// the edge establishes for y.
func c15edgeBounds(cond ssa.Value, pol bool) (y ssa.Value, lo int64, hasLo bool, hi int64, hasHi bool) {
	bo, ok := cond.(*ssa.BinOp)
	if !ok {
		return
	}
	op := bo.Op
	var k int64
	if cv, isC := constInt(bo.Y); isC {
		y, k = bo.X, cv
	} else if cv, isC := constInt(bo.X); isC {
		y, k = bo.Y, cv
		switch op { // mirror: k OP y  ==  y OP' k
		case token.LSS:
			op = token.GTR
		case token.LEQ:
			op = token.GEQ
		case token.GTR:
			op = token.LSS
		case token.GEQ:
			op = token.LEQ
		}
	} else {
		return
	}
	if !pol { // negate
		switch op {
		case token.LSS:
			op = token.GEQ
		case token.LEQ:
			op = token.GTR
		case token.GTR:
			op = token.LEQ
		case token.GEQ:
			op = token.LSS
		case token.EQL:
			op = token.NEQ
		case token.NEQ:
			op = token.EQL
		}
	}
	switch op {
	case token.LSS:
		hi, hasHi = k-1, true
	case token.LEQ:
		hi, hasHi = k, true
	case token.GTR:
		lo, hasLo = k+1, true
	case token.GEQ:
		lo, hasLo = k, true
	case token.EQL:
		lo, hasLo, hi, hasHi = k, true, k, true
	default:
		y = nil
	}
	return
}

func c15R4stats(c *Check, s *c15stats) {
	p := c.P
	fn := s.logOnl
	c.Saw(fnName(fn))
	const r4 = "C15.R4 stats server: LogOnlineState(id,true) adds one to OnlineMap[id]; (id,false) subtracts one and the entry is removed unless the new count is proven >= 1 (never negative, never a stale zero), and removed only when the new count is proven <= 0"
	idP, onP := ssa.Value(fn.Params[1]), ssa.Value(fn.Params[2])
	isOnlineLookup := func(v ssa.Value) *ssa.Lookup {
		lk, ok := c15localVal(v).(*ssa.Lookup)
		if ok && !lk.CommaOk && c15isLoadOf(lk.X, s.online) && resolve(lk.Index) == idP {
			return lk
		}
		return nil
	}
	var incs, decs, dels []ssa.Instruction
	allInstrs(fn, func(in ssa.Instruction) {
		switch x := in.(type) {
		case *ssa.MapUpdate:
			if !c15isLoadOf(x.Map, s.online) {
				return
			}
			if resolve(x.Key) != idP {
				c.Bad("C15.R4:onlinemap:key", r4, p.InstrPos(x), "OnlineMap is updated under a key other than the id parameter")
				return
			}
			bo, ok := c15localVal(x.Value).(*ssa.BinOp)
			if ok && isOnlineLookup(bo.X) != nil && isConstInt(bo.Y, 1) && bo.Op == token.ADD {
				incs = append(incs, x)
			} else if ok && isOnlineLookup(bo.X) != nil && isConstInt(bo.Y, 1) && bo.Op == token.SUB {
				decs = append(decs, x)
			} else {
				c.Bad("C15.R4:onlinemap:update-shape", r4, p.InstrPos(x), "OnlineMap[id] is set to something other than OnlineMap[id]+1 / OnlineMap[id]-1")
			}
		case *ssa.Call:
			if (isBuiltinCall(x, "delete") || isBuiltinCall(x, "clear")) && len(x.Call.Args) >= 1 && c15isLoadOf(x.Call.Args[0], s.online) {
				if len(x.Call.Args) == 2 && resolve(x.Call.Args[1]) == idP {
					dels = append(dels, x)
				} else {
					c.Bad("C15.R4:onlinemap:key", r4, p.InstrPos(x), "OnlineMap entries of other ids are removed")
				}
			}
		}
	})
	in := func(set []ssa.Instruction) func(ssa.Instruction) bool {
		return func(x ssa.Instruction) bool {
			for _, y := range set {
				if x == y {
					return true
				}
			}
			return false
		}
	}
	onTrue := func(cond ssa.Value, pol bool) bool {
		v, q := c15norm(cond, pol)
		return q && resolve(v) == onP
	}
	onFalse := func(cond ssa.Value, pol bool) bool {
		v, q := c15norm(cond, pol)
		return !q && resolve(v) == onP
	}
	tb, fb := c15edgeTargets(fn, onTrue), c15edgeTargets(fn, onFalse)
	if !c.Req(len(tb) > 0 && len(fb) > 0, "C15.R4:onlinemap:branch", r4, p.Pos(fn.Pos()), "LogOnlineState does not branch on its online parameter") {
		return
	}
	for i, x := range incs {
		c.Req(guardedBy(x, onTrue), fmt.Sprintf("C15.R4:onlinemap:inc#%d", i+1), r4, p.InstrPos(x), "the count is incremented on a path where online is not true")
	}
	for i, x := range decs {
		c.Req(guardedBy(x, onFalse), fmt.Sprintf("C15.R4:onlinemap:dec#%d", i+1), r4, p.InstrPos(x), "the count is decremented on a path where online is not false")
	}
	c.Floor("C15.R4:onlinemap:inc", len(incs), 1)
	c.Floor("C15.R4:onlinemap:dec", len(decs), 1)
	for _, b := range tb {
		c.Req(len(c15returnsIn(c15walk(b, in(incs), nil))) == 0, "C15.R4:onlinemap:online-increments", r4, p.InstrPos(b.Instrs[0]), "a path with online==true returns without incrementing OnlineMap[id]")
	}
	// offset of a compared value relative to the count before this call
	var offOf func(v ssa.Value, depth int) (int64, bool)
	offOf = func(v ssa.Value, depth int) (int64, bool) {
		v = c15localVal(v)
		if depth > 3 {
			return 0, false
		}
		if bo, ok := v.(*ssa.BinOp); ok && (bo.Op == token.SUB || bo.Op == token.ADD) {
			if k, isC := constInt(bo.Y); isC {
				if o, ok := offOf(bo.X, depth+1); ok {
					if bo.Op == token.SUB {
						return o - k, true
					}
					return o + k, true
				}
			}
			return 0, false
		}
		lk := isOnlineLookup(v)
		if lk == nil {
			return 0, false
		}
		after, before := true, true
		for _, d := range decs {
			if !dominates(d, lk) {
				after = false
			}
			if reachableAfter(d, lk) {
				before = false
			}
		}
		for _, d := range incs {
			if reachableAfter(d, lk) {
				return 0, false
			}
		}
		switch {
		case len(decs) == 1 && after:
			return -1, true
		case before:
			return 0, true
		}
		return 0, false
	}
	positive := func(cond ssa.Value, pol bool) bool {
		y, lo, hasLo, _, _ := c15edgeBounds(cond, pol)
		if y == nil || !hasLo {
			return false
		}
		o, ok := offOf(y, 0)
		return ok && lo-o-1 >= 1
	}
	nonPositive := func(cond ssa.Value, pol bool) bool {
		y, _, _, hi, hasHi := c15edgeBounds(cond, pol)
		if y == nil || !hasHi {
			return false
		}
		o, ok := offOf(y, 0)
		return ok && hi-o-1 <= 0
	}
	for _, b := range fb {
		pos := p.InstrPos(b.Instrs[0])
		c.Req(len(c15returnsIn(c15walk(b, func(x ssa.Instruction) bool { return in(decs)(x) || in(dels)(x) }, nil))) == 0,
			"C15.R4:onlinemap:offline-decrements", r4, pos, "a path with online==false returns without decrementing or removing OnlineMap[id] (stale count after a disconnect)")
		leaks := c15returnsIn(c15walk(b, in(dels), positive))
		c.Req(len(leaks) == 0, "C15.R4:onlinemap:remove-at-zero", r4, pos, "a path with online==false returns with the entry kept although the new count is not proven >= 1 (zero or negative counts are listed)")
	}
	for i, d := range dels {
		c.Req(guardedBy(d, onFalse) && guardedBy(d, nonPositive), fmt.Sprintf("C15.R4:onlinemap:remove-only-at-zero#%d", i+1), r4, p.InstrPos(d), "OnlineMap[id] is removed on a path where the new count is not proven <= 0 (a user with remaining connections disappears from the listing)")
	}
	c.Floor("C15.R4:onlinemap:remove", len(dels), 1)
	// nothing else writes OnlineMap
	for _, fr := range fieldRefs(p.RepoFns, s.online) {
		if c15freshRoot(fr.Addr, fr.Fn) || fr.Fn == fn {
			continue
		}
		if fr.Kind == "store" {
			c.Bad("C15.R4:onlinemap:foreign-write:"+fnName(fr.Fn), r4, p.InstrPos(fr.Instr), "OnlineMap is reassigned outside LogOnlineState")
		}
		if fr.Kind == "load" {
			for _, op := range mapOpsOn(fr.Val) {
				if op.Kind == "update" || op.Kind == "delete" {
					c.Bad("C15.R4:onlinemap:foreign-write:"+fnName(fr.Fn), r4, p.InstrPos(op.Instr), "OnlineMap is modified outside LogOnlineState")
				}
			}
		}
	}
}

// ---------------------------------------------------------------------------
// R4 (core/server side): pairing of online / offline notifications

type c15srv struct {
	c         *Check
	p         *Prog
	a         *srvAnchors
	la        *LockAnalysis
	tlIface   *types.Named
	authIDf   *types.Var
	serveCall *ssa.Call
}

// c15onlineSites: invokes of TrafficLogger.LogOnlineState in core/server with
// a constant second argument.
func (x *c15srv) sites(method string) []*ssa.Call {
	var out []*ssa.Call
	for _, fn := range x.p.RepoFns {
		if pk := fnPkg(fn); pk == nil || pk.Pkg.Path() != pServer {
			continue
		}
		allInstrs(fn, func(in ssa.Instruction) {
			ci, ok := in.(ssa.CallInstruction)
			if !ok || !invokeIs(ci, method) || !types.Identical(ci.Common().Value.Type(), x.tlIface) {
				return
			}
			if call, ok := in.(*ssa.Call); ok {
				out = append(out, call)
			} else {
				x.c.Undecided("C15.R4:deferred-or-go:"+fnName(fn), "C15.R4 notifications are plain calls", x.p.InstrPos(in), method+" is invoked through go/defer; ordering against the serve call is not analysed")
			}
		})
	}
	return out
}

func (x *c15srv) tlNilEdge(cond ssa.Value, pol bool) bool {
	v, isNil, ok := nilTest(cond, pol)
	return ok && isNil && types.Identical(v.Type(), x.tlIface)
}

// performers: instructions of fn that perform a notification accepted by isSite:
// the invoke itself, or a plain call of a repo function that does (depth<=3).
// must[i] tells whether executing the instruction always performs it (modulo
// the `logger == nil` edge).
func (x *c15srv) performers(fn *ssa.Function, isSite func(*ssa.Call) bool, depth int, skip EdgePred) (ins []ssa.Instruction, must map[ssa.Instruction]bool) {
	must = map[ssa.Instruction]bool{}
	if depth > 3 {
		return
	}
	allInstrs(fn, func(in ssa.Instruction) {
		call, ok := in.(*ssa.Call)
		if !ok {
			return
		}
		if isSite(call) {
			ins = append(ins, call)
			must[call] = true
			return
		}
		g := staticCallee(call)
		if !c15isRepoBody(x.p, g) || g == fn {
			return
		}
		gi, gm := x.performers(g, isSite, depth+1, skip)
		if len(gi) == 0 {
			return
		}
		ins = append(ins, call)
		stop := func(y ssa.Instruction) bool { return gm[y] }
		edgeSkip := EdgePred(x.tlNilEdge)
		if skip != nil {
			edgeSkip = func(cond ssa.Value, pol bool) bool { return x.tlNilEdge(cond, pol) || skip(cond, pol) }
		}
		must[call] = len(c15returnsIn(c15walk(g.Blocks[0], stop, edgeSkip))) == 0
	})
	return
}

// guardLifted: `in` is guarded by pred in its own function, or every static
// caller's call site is (up to `top`).
func (x *c15srv) guardLifted(in ssa.Instruction, pred func(fn *ssa.Function) EdgePred, top *ssa.Function, depth int) bool {
	fn := in.Parent()
	if guardedBy(in, pred(fn)) {
		return true
	}
	if fn == top || depth > 3 || x.la.escaped[fn] || len(x.la.callers[fn]) == 0 {
		return false
	}
	for _, cs := range x.la.callers[fn] {
		if !x.guardLifted(cs, pred, top, depth+1) {
			return false
		}
	}
	return true
}

// atTop maps an instruction to the instruction(s) of `top` through which it is
// reached (itself, or the call sites of its enclosing helpers); ok=false if a
// route does not lead to top.
func (x *c15srv) atTop(in ssa.Instruction, top *ssa.Function, depth int) (out []ssa.Instruction, ok bool) {
	fn := in.Parent()
	if fn == top {
		return []ssa.Instruction{in}, true
	}
	if depth > 3 || x.la.escaped[fn] || len(x.la.callers[fn]) == 0 {
		return nil, false
	}
	for _, cs := range x.la.callers[fn] {
		o, k := x.atTop(cs, top, depth+1)
		if !k {
			return nil, false
		}
		out = append(out, o...)
	}
	return out, true
}

// origins of an argument value: itself, or (for a parameter of a helper) the
// corresponding arguments at every call site.
func (x *c15srv) origins(v ssa.Value, fn *ssa.Function, depth int) []ssa.Value {
	v = resolve(v)
	pi := c15paramIndex(fn, v)
	if pi < 0 || depth > 3 || x.la.escaped[fn] || len(x.la.callers[fn]) == 0 {
		return []ssa.Value{v}
	}
	var out []ssa.Value
	for _, cs := range x.la.callers[fn] {
		args := cs.Common().Args
		if pi >= len(args) {
			return []ssa.Value{v}
		}
		out = append(out, x.origins(args[pi], cs.Parent(), depth+1)...)
	}
	return out
}

func c15R4server(c *Check, la *LockAnalysis) {
	p := c.P
	a := c.serverAnchors()
	if !a.ok {
		return
	}
	x := &c15srv{c: c, p: p, a: a, la: la}
	x.tlIface = p.Named(pServer, "TrafficLogger")
	if x.tlIface == nil {
		c.Unres("interface server.TrafficLogger")
		return
	}
	if a.flag == nil || !a.flagOnH || a.authOK == nil || a.authID == nil {
		c.Unres("per-connection auth flag / authenticator verdict in " + fnName(a.serveHTTP))
		return
	}
	x.authIDf = p.Field(pServer, a.H.Obj().Name(), "authID")
	if x.authIDf == nil {
		c.Unres("identity field authID of " + a.H.Obj().Name())
		return
	}
	// the serve call in the per-connection function
	allInstrs(a.handleClient, func(in ssa.Instruction) {
		if call, ok := in.(*ssa.Call); ok {
			if f := staticCallee(call); f != nil && f.Name() == "ServeQUICConn" && fnPkg(f) != nil && fnPkg(f).Pkg.Path() == pQUIC+"/http3" {
				x.serveCall = call
			}
		}
	})
	if x.serveCall == nil {
		c.Unres("call of http3.Server.ServeQUICConn in " + fnName(a.handleClient))
		return
	}
	c.Saw(fnName(a.serveHTTP))
	c.Saw(fnName(a.handleClient))
	const r4 = "C15.R4 online is reported exactly once per accepted authentication with the authenticator's id; offline exactly once after the serve call returned, iff the handler's flag (re-read after the serve call) is set, with the handler's authID"

	var online, offline []*ssa.Call
	for _, s := range x.sites("LogOnlineState") {
		args := s.Call.Args
		switch {
		case len(args) == 2 && isConstBool(args[1], true):
			online = append(online, s)
		case len(args) == 2 && isConstBool(args[1], false):
			offline = append(offline, s)
		default:
			c.Undecided("C15.R4:state-arg:"+fnName(s.Parent()), r4, p.InstrPos(s), "LogOnlineState called with a non-constant state")
		}
	}
	c.Floor("C15.R4:online-site", len(online), 1)
	c.Floor("C15.R4:offline-site", len(offline), 1)

	// identity store: only the authenticator's id, only after its verdict
	nSt := 0
	for _, fr := range fieldRefs(p.RepoFns, x.authIDf) {
		if fr.Kind != "store" || c15freshRoot(fr.Addr, fr.Fn) {
			continue
		}
		nSt++
		good := a.inAuthRegion(la, fr.Instr, 0)
		for _, o := range x.origins(fr.Val, fr.Fn, 0) {
			if o != a.authID {
				good = false
			}
		}
		c.Req(good, "C15.R4:authID-store:"+fnName(fr.Fn), r4, p.InstrPos(fr.Instr), "the handler's authID is stored outside the auth-ok region or from a value other than the authenticator's id (offline would be reported for another id than online)")
	}
	c.Floor("C15.R4:authID-store", nSt, 1)

	isFlag := func(v ssa.Value) (*ssa.UnOp, bool) {
		u, ok := v.(*ssa.UnOp)
		if !ok || u.Op != token.MUL || !a.isFlagLoad(u, nil) {
			return nil, false
		}
		ap := accessPath(u)
		return u, len(ap.Fields) == 1 && namedOf(ap.Root.Type()) == a.H
	}
	authOK := func(fn *ssa.Function) EdgePred { return a.authOKEdge }
	flagFalse := func(fn *ssa.Function) EdgePred {
		return func(cond ssa.Value, pol bool) bool {
			v, q := c15norm(cond, pol)
			_, ok := isFlag(v)
			return ok && !q
		}
	}
	// ---- online
	for i, s := range online {
		k := fmt.Sprintf("C15.R4:online:%s", fnName(s.Parent()))
		if i > 0 {
			k = fmt.Sprintf("%s#%d", k, i+1)
		}
		pos := p.InstrPos(s)
		c.Req(x.guardLifted(s, authOK, a.serveHTTP, 0), k+":after-verdict", r4, pos, "LogOnlineState(id,true) is reachable without crossing the authenticator's true edge")
		c.Req(x.guardLifted(s, flagFalse, a.serveHTTP, 0), k+":first-auth-only", r4, pos, "LogOnlineState(id,true) is reachable on an already authenticated connection (counted twice, one offline)")
		good := true
		for _, o := range x.origins(s.Call.Args[0], s.Parent(), 0) {
			if o != a.authID && !c15isLoadOf(o, x.authIDf) {
				good = false
			}
		}
		c.Req(good, k+":id", r4, pos, "the id reported online is not the authenticator's id")
	}
	isOnline := func(call *ssa.Call) bool {
		for _, s := range online {
			if s == call {
				return true
			}
		}
		return false
	}
	{
		perf, must := x.performers(a.serveHTTP, isOnline, 0, nil)
		stop := func(in ssa.Instruction) bool { return must[in] }
		for _, b := range c15edgeTargets(a.serveHTTP, a.authOKEdge) {
			leaks := c15returnsIn(c15walk(b, stop, x.tlNilEdge))
			c.Req(len(leaks) == 0, "C15.R4:online:on-every-accept", r4, p.InstrPos(b.Instrs[0]), "a path through the auth-ok region returns without LogOnlineState(id,true) although a traffic logger is configured (connection missing from the online count)")
		}
		for _, pi := range perf {
			twice := false
			for _, in := range reachFrom(a.serveHTTP, pi, nil, nil) {
				for _, pj := range perf {
					if in == pj {
						twice = true
					}
				}
			}
			c.Req(!twice, "C15.R4:online:at-most-once", r4, p.InstrPos(pi), "a second LogOnlineState(id,true) is reachable after this one on the same request")
		}
	}
	// ---- offline
	afterServe := func(in ssa.Instruction) bool {
		tops, ok := x.atTop(in, a.handleClient, 0)
		if !ok {
			return false
		}
		for _, t := range tops {
			if !dominates(x.serveCall, t) {
				return false
			}
		}
		return true
	}
	flagTrue := func(fn *ssa.Function) EdgePred {
		return func(cond ssa.Value, pol bool) bool {
			cond, pol = c15norm(cond, pol)
			u, ok := isFlag(cond)
			if !ok || !pol {
				return false
			}
			if fn == a.handleClient {
				// the handler created for this connection, flag re-read after serve
				root := resolve(accessPath(u).Root)
				call, isCall := root.(*ssa.Call)
				return isCall && a.newHandler != nil && staticCallee(call) == a.newHandler && dominates(x.serveCall, u)
			}
			return afterServe(u)
		}
	}
	for i, s := range offline {
		k := fmt.Sprintf("C15.R4:offline:%s", fnName(s.Parent()))
		if i > 0 {
			k = fmt.Sprintf("%s#%d", k, i+1)
		}
		pos := p.InstrPos(s)
		if !c.Req(afterServe(s), k+":after-serve", r4, pos, "LogOnlineState(id,false) is not confined to the per-connection function after the serve call returned") {
			continue
		}
		c.Req(x.guardLifted(s, flagTrue, a.handleClient, 0), k+":iff-authenticated", r4, pos, "LogOnlineState(id,false) is reachable without the true edge of the handler's flag read after the serve call (offline without a matching online, or a stale flag value)")
		good := true
		for _, o := range x.origins(s.Call.Args[0], s.Parent(), 0) {
			u, isLoad := o.(*ssa.UnOp)
			if !isLoad || !c15isLoadOf(o, x.authIDf) || !afterServe(u) {
				good = false
			}
		}
		c.Req(good, k+":id", r4, pos, "the id reported offline is not the handler's authID read after the serve call (the online entry of the real id is never decremented)")
	}
	isOffline := func(call *ssa.Call) bool {
		for _, s := range offline {
			if s == call {
				return true
			}
		}
		return false
	}
	{
		fn := a.handleClient
		// the not-authenticated edge of the handler's flag (also inside a helper
		// that receives the handler: the early return of a disconnect helper)
		flagOff := func(cond ssa.Value, pol bool) bool {
			v, q := c15norm(cond, pol)
			_, ok := isFlag(v)
			return ok && !q
		}
		perf, must := x.performers(fn, isOffline, 0, flagOff)
		stop := func(in ssa.Instruction) bool { return must[in] }
		skip := func(cond ssa.Value, pol bool) bool {
			return x.tlNilEdge(cond, pol) || flagOff(cond, pol)
		}
		leak := ""
		for _, in := range reachFrom(fn, x.serveCall, stop, skip) {
			if r, ok := in.(*ssa.Return); ok {
				leak = p.InstrPos(r)
			}
		}
		c.Req(leak == "", "C15.R4:offline:on-every-exit", r4, p.InstrPos(x.serveCall), "after the serve call a path of an authenticated connection returns without LogOnlineState(authID,false) (stale online count): return at "+leak)
		for _, pi := range perf {
			twice := false
			for _, in := range reachFrom(fn, pi, nil, nil) {
				for _, pj := range perf {
					if in == pj {
						twice = true
					}
				}
			}
			c.Req(!twice, "C15.R4:offline:at-most-once", r4, p.InstrPos(pi), "a second LogOnlineState(id,false) is reachable after this one for the same connection")
		}
		c.Floor("C15.R4:offline:performers", len(perf), 1)
	}
}

// ---------------------------------------------------------------------------
// R5: a refused report closes the QUIC connection

func c15isConnCloseCall(in ssa.Instruction) bool {
	call, ok := in.(*ssa.Call)
	if !ok {
		return false
	}
	f := staticCallee(call)
	if f == nil || f.Name() != "CloseWithError" || f.Signature.Recv() == nil {
		return false
	}
	n := namedOf(f.Signature.Recv().Type())
	return n != nil && n.Obj().Name() == "Conn" && n.Obj().Pkg() != nil && n.Obj().Pkg().Path() == pQUIC
}

// c15closer: instruction closes the QUIC connection: CloseWithError itself or
// a plain call of a repo helper that does so on every path (depth<=2).
func c15closer(p *Prog, depth int) func(ssa.Instruction) bool {
	var self func(in ssa.Instruction) bool
	self = func(in ssa.Instruction) bool {
		if c15isConnCloseCall(in) {
			return true
		}
		call, ok := in.(*ssa.Call)
		if !ok || depth >= 2 {
			return false
		}
		g := staticCallee(call)
		if !c15isRepoBody(p, g) || g == in.Parent() {
			return false
		}
		inner := c15closer(p, depth+1)
		return len(c15returnsIn(c15walk(g.Blocks[0], inner, nil))) == 0
	}
	return self
}

// c15isValueOf: v is the result of call (through temporaries, conversions,
// tuple extraction and phis one of whose edges is the call).
func c15isValueOf(v ssa.Value, call *ssa.Call, depth int) bool {
	v = c15localVal(v)
	if v == ssa.Value(call) {
		return true
	}
	if depth > 4 {
		return false
	}
	switch x := v.(type) {
	case *ssa.Extract:
		return x.Tuple == ssa.Value(call)
	case *ssa.Phi:
		for _, e := range x.Edges {
			if c15isValueOf(e, call, depth+1) {
				return true
			}
		}
	}
	return false
}

// c15forwardsErr: fn's last result is an error and every return reachable after
// `call` returns the call's (error) result unchanged: fn only hands the relay's
// verdict on to its own caller.
func c15forwardsErr(fn *ssa.Function, call *ssa.Call) bool {
	res := fn.Signature.Results()
	if res.Len() == 0 || !types.Identical(res.At(res.Len()-1).Type(), types.Universe.Lookup("error").Type()) {
		return false
	}
	n := 0
	// paths on which the call's error is known to be nil carry no verdict
	isNilEdge := func(cond ssa.Value, pol bool) bool {
		v, isNil, ok := nilTest(cond, pol)
		return ok && isNil && c15isValueOf(v, call, 0)
	}
	for _, r := range c15returnsIn(reachFrom(fn, call, nil, isNilEdge)) {
		if fn.Recover == r.Block() {
			continue
		}
		rs := retResults(r)
		if len(rs) == 0 || !c15isValueOf(rs[len(rs)-1], call, 0) {
			return false
		}
		n++
	}
	return n > 0
}

func c15R5(c *Check, la *LockAnalysis) {
	p := c.P
	const r5 = "C15.R5 when LogTraffic returns false every path leads to CloseWithError on the QUIC connection: directly at the call site, or via the disconnect sentinel returned by the logging copy loop and tested by the relay's caller"
	tl := p.Named(pServer, "TrafficLogger")
	if tl == nil {
		c.Unres("interface server.TrafficLogger")
		return
	}
	isClose := c15closer(p, 0)
	var srvFns []*ssa.Function
	for _, fn := range p.RepoFns {
		if pk := fnPkg(fn); pk != nil && pk.Pkg.Path() == pServer {
			srvFns = append(srvFns, fn)
		}
	}
	var sites []*ssa.Call
	for _, fn := range srvFns {
		allInstrs(fn, func(in ssa.Instruction) {
			ci, ok := in.(ssa.CallInstruction)
			if !ok || !invokeIs(ci, "LogTraffic") || !types.Identical(ci.Common().Value.Type(), tl) {
				return
			}
			if call, ok := in.(*ssa.Call); ok {
				sites = append(sites, call)
			} else {
				c.Bad("C15.R5:site:"+fnName(fn)+":go-defer", r5, p.InstrPos(in), "LogTraffic invoked through go/defer: its verdict is discarded")
			}
		})
	}
	c.Floor("C15.R5:LogTraffic-sites", len(sites), 1)
	closes := map[ssa.Instruction]bool{}
	nFwd := 0
	ord := map[string]int{}
	for _, s := range sites {
		fn := s.Parent()
		c.Saw(fnName(fn))
		k := "C15.R5:site:" + fnName(fn)
		ord[k]++
		if ord[k] > 1 {
			k = fmt.Sprintf("%s#%d", k, ord[k])
		}
		okTrue := func(cond ssa.Value, pol bool) bool {
			v, q := c15norm(cond, pol)
			return q && c15localVal(v) == ssa.Value(s)
		}
		reached := reachFrom(fn, s, isClose, okTrue)
		rets := c15returnsIn(reached)
		if len(rets) == 0 {
			for _, in := range reached {
				if isClose(in) {
					closes[in] = true
				}
			}
			c.OK(k+":closes", r5, p.InstrPos(s))
			continue
		}
		// forwarded as the result of a func(...) bool (the copy loop's log callback)?
		res := fn.Signature.Results()
		fwd := res.Len() == 1 && types.Identical(res.At(0).Type().Underlying(), types.Typ[types.Bool])
		for _, r := range rets {
			rs := retResults(r)
			if len(rs) != 1 || c15localVal(rs[0]) != ssa.Value(s) {
				fwd = false
			}
		}
		if fwd {
			nFwd++
			c.OK(k+":forwards-verdict", r5, p.InstrPos(s))
			continue
		}
		c.Bad(k+":closes", r5, p.InstrPos(s), "on the refused edge of LogTraffic (or with its result ignored) a path returns without CloseWithError on the connection: the kicked user stays connected, return at "+p.InstrPos(rets[0]))
	}
	if nFwd == 0 {
		c.Floor("C15.R5:close-sites", len(closes), 1)
		return
	}
	// the logging copy loop(s): functions of core/server calling a parameter of
	// type func(...) bool
	sentinels := map[*ssa.Global]bool{}
	relayFns := map[*ssa.Function]bool{}
	loopFns := map[*ssa.Function]bool{} // return the sentinel when their callback refuses
	nLoop := 0
	for _, g := range srvFns {
		for _, prm := range g.Params {
			sig, ok := prm.Type().Underlying().(*types.Signature)
			if !ok || sig.Results().Len() != 1 || !types.Identical(sig.Results().At(0).Type().Underlying(), types.Typ[types.Bool]) {
				continue
			}
			var calls []*ssa.Call
			allInstrs(g, func(gin ssa.Instruction) {
				if cc, ok := gin.(*ssa.Call); ok && !cc.Call.IsInvoke() && resolve(cc.Call.Value) == ssa.Value(prm) {
					calls = append(calls, cc)
				}
			})
			if len(calls) == 0 {
				continue
			}
			nLoop++
			c.Saw(fnName(g))
			bad := ""
			for _, cc := range calls {
				okTrue := func(cond ssa.Value, pol bool) bool {
					v, q := c15norm(cond, pol)
					return q && c15localVal(v) == ssa.Value(cc)
				}
				for _, r := range c15returnsIn(reachFrom(g, cc, nil, okTrue)) {
					rs := retResults(r)
					var gl *ssa.Global
					if len(rs) >= 1 {
						if u, ok := c15localVal(rs[len(rs)-1]).(*ssa.UnOp); ok && u.Op == token.MUL {
							gl, _ = u.X.(*ssa.Global)
							if gl != nil && (gl.Pkg == nil || gl.Pkg != fnPkg(g)) {
								gl = nil // a foreign error value is not the relay's disconnect sentinel
							}
						}
					}
					if gl == nil {
						bad = p.InstrPos(r)
					} else {
						sentinels[gl] = true
					}
				}
			}
			c.Req(bad == "", "C15.R5:callback:"+fnName(g), r5, p.Pos(g.Pos()), "the copy loop does not return the package's disconnect sentinel on the refused edge of its log callback (veto swallowed): return at "+bad)
			loopFns[g] = true
		}
	}
	c.Floor("C15.R5:callback-consumers", nLoop, 1)
	// callers of the relay: the sentinel edge closes the connection.  A caller
	// that merely hands the relay's error on as its own last result (a dispatch
	// helper picking the logging or the fast relay) is itself a relay: the
	// obligation moves to its callers (worklist, bounded).
	nCallers := 0
	var relayList []*ssa.Function
	relayDepth := map[*ssa.Function]int{}
	// level 0: the copy loops themselves.  Their result reaches the relay's
	// caller either as the result of a function that hands it on unchanged
	// (a loop that had its per-chunk step extracted, a dispatch helper), or
	// through the goroutine closures of the two-way relay (channel): then the
	// function enclosing the closure is the relay.
	viaLoop := map[*ssa.Function]bool{}
	for g := range loopFns {
		relayList = append(relayList, g)
		viaLoop[g] = true
	}
	addRelay := func(fn, from *ssa.Function, loop bool) {
		if !relayFns[fn] && !loopFns[fn] {
			relayFns[fn] = true
			relayDepth[fn] = relayDepth[from] + 1
			viaLoop[fn] = loop
			relayList = append(relayList, fn)
		}
	}
	for wi := 0; wi < len(relayList); wi++ {
		rf := relayList[wi]
		for _, cs := range la.callers[rf] {
			call, ok := cs.(*ssa.Call)
			if !ok {
				continue
			}
			fn := call.Parent()
			if viaLoop[rf] && fn.Parent() != nil {
				root := fn
				for root.Parent() != nil {
					root = root.Parent()
				}
				addRelay(root, rf, false)
				continue
			}
			if viaLoop[rf] && loopFns[rf] && fn.Parent() == nil && !c15forwardsErr(fn, call) {
				// a direct (non-closure) caller of the loop is the relay
				addRelay(fn, rf, false)
				continue
			}
			if c15forwardsErr(fn, call) && relayDepth[rf] < 5 && !la.escaped[fn] && len(la.callers[fn]) > 0 {
				addRelay(fn, rf, viaLoop[rf])
				c.Saw(fnName(fn))
				c.OK("C15.R5:relay-forwarder:"+fnName(fn)+"→"+fnName(rf), r5, p.InstrPos(call))
				continue
			}
			nCallers++
			c.Saw(fnName(fn))
			notSentinel := func(cond ssa.Value, pol bool) bool {
				var xv, yv ssa.Value
				want := false // polarity on which "is the sentinel" holds
				switch b := cond.(type) {
				case *ssa.BinOp:
					if b.Op != token.EQL && b.Op != token.NEQ {
						return false
					}
					xv, yv, want = b.X, b.Y, b.Op == token.EQL
				case *ssa.Call:
					if !calleeIs(b, "errors", "Is") || len(b.Call.Args) != 2 {
						return false
					}
					xv, yv, want = b.Call.Args[0], b.Call.Args[1], true
				default:
					return false
				}
				isSent := func(v ssa.Value) bool {
					u, ok := resolve(v).(*ssa.UnOp)
					if !ok || u.Op != token.MUL {
						return false
					}
					gl, ok := u.X.(*ssa.Global)
					return ok && sentinels[gl]
				}
				var other ssa.Value
				switch {
				case isSent(yv):
					other = xv
				case isSent(xv):
					other = yv
				default:
					return false
				}
				if !dependsOn(other, call, depOpts{}) {
					return false
				}
				return pol != want
			}
			reached := reachFrom(fn, call, isClose, notSentinel)
			rets := c15returnsIn(reached)
			k := "C15.R5:relay-caller:" + fnName(fn) + "→" + fnName(rf)
			if len(rets) == 0 {
				for _, in := range reached {
					if isClose(in) {
						closes[in] = true
					}
				}
			}
			detail := ""
			if len(rets) > 0 {
				detail = p.InstrPos(rets[0])
			}
			c.Req(len(rets) == 0, k, r5, p.InstrPos(call), "after the logging relay returns, a path on which its error may be the disconnect sentinel returns without CloseWithError on the connection (TCP veto does not disconnect): return at "+detail)
		}
	}
	c.Floor("C15.R5:relay-callers", nCallers, 1)
	c.Floor("C15.R5:close-sites", len(closes), 1)
}

// ---------------------------------------------------------------------------

func checkC15(c *Check) {
	lockBalanceRule(c, "C15", pTraffic)
	la := c.P.Locks()
	if s := c15resolveStats(c); s != nil {
		c.Saw(s.T.Obj().Name())
		c15R1(c, s, la)
		c15R2(c, s, la)
		c15R3(c, s, la)
		c15R4stats(c, s)
	}
	c15R4server(c, la)
	c15R5(c, la)
}
